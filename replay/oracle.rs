// Rules-level reference implementation used ONLY by the counterexample hunter / replay tool.
// It shares no code with the engine: forward geometry on an 8x8 board (the engine scans backwards from the king on a
// 12x12 mailbox).  It is never the deciding step of a check (the verifier is); it turns a failed obligation into a
// concrete failing input and cross-checks the unchanged tree in the thorough tier.
#![allow(dead_code)]

#[derive(Clone, Copy, PartialEq, Eq, Debug, Hash, PartialOrd, Ord)]
pub enum K { P, N, B, R, Q, K }
pub type Pc = (bool, K); // (is_white, kind)

#[derive(Clone, PartialEq, Eq, Debug, Hash)]
pub struct Pos {
    pub sq: [[Option<Pc>; 8]; 8], // row 0 = rank 8, col 0 = file a
    pub white_to_move: bool,
    pub castle: [bool; 4], // WK, WQ, BK, BQ
    pub ep: Option<(usize, usize)>,
}

#[derive(Clone, Copy, PartialEq, Eq, Debug, Hash, PartialOrd, Ord)]
pub struct Mv { pub from: (usize, usize), pub to: (usize, usize), pub promo: Option<K> }

pub fn sqname(p: (usize, usize)) -> String { format!("{}{}", (b'a' + p.1 as u8) as char, 8 - p.0) }
impl Mv {
    pub fn uci(&self) -> String {
        let mut s = format!("{}{}", sqname(self.from), sqname(self.to));
        if let Some(k) = self.promo { s.push(match k { K::Q => 'q', K::N => 'n', K::B => 'b', K::R => 'r', _ => '?' }); }
        s
    }
}

fn inb(r: i32, c: i32) -> bool { (0..8).contains(&r) && (0..8).contains(&c) }

impl Pos {
    pub fn at(&self, r: i32, c: i32) -> Option<Pc> { if inb(r, c) { self.sq[r as usize][c as usize] } else { None } }
    pub fn king(&self, white: bool) -> Option<(usize, usize)> {
        for r in 0..8 { for c in 0..8 { if self.sq[r][c] == Some((white, K::K)) { return Some((r, c)); } } }
        None
    }
    pub fn count(&self, pc: Pc) -> usize { self.sq.iter().flatten().filter(|x| **x == Some(pc)).count() }

    // does the piece standing on (pr,pc) attack (r,c)?  forward movement geometry
    fn piece_attacks(&self, pr: usize, pcc: usize, r: usize, c: usize) -> bool {
        let (w, k) = match self.sq[pr][pcc] { Some(x) => x, None => return false };
        let dr = r as i32 - pr as i32; let dc = c as i32 - pcc as i32;
        if dr == 0 && dc == 0 { return false; }
        match k {
            K::P => dc.abs() == 1 && dr == if w { -1 } else { 1 },
            K::N => (dr.abs() == 1 && dc.abs() == 2) || (dr.abs() == 2 && dc.abs() == 1),
            K::K => dr.abs() <= 1 && dc.abs() <= 1,
            K::B | K::R | K::Q => {
                let diag = dr.abs() == dc.abs(); let line = dr == 0 || dc == 0;
                let ok = match k { K::B => diag, K::R => line, _ => diag || line };
                if !ok { return false; }
                let sr = dr.signum(); let sc = dc.signum();
                let (mut rr, mut cc) = (pr as i32 + sr, pcc as i32 + sc);
                while (rr, cc) != (r as i32, c as i32) {
                    if self.at(rr, cc).is_some() { return false; }
                    rr += sr; cc += sc;
                }
                true
            }
        }
    }
    pub fn attacked(&self, by_white: bool, r: usize, c: usize) -> bool {
        for pr in 0..8 { for pcc in 0..8 {
            if let Some((w, _)) = self.sq[pr][pcc] { if w == by_white && self.piece_attacks(pr, pcc, r, c) { return true; } }
        } }
        false
    }
    pub fn in_check(&self, white: bool) -> bool {
        match self.king(white) { Some((r, c)) => self.attacked(!white, r, c), None => false }
    }

    // the position after playing m (m need not be legal, but must move an existing piece)
    pub fn apply(&self, m: Mv) -> Pos {
        let mut n = self.clone();
        let (w, k) = self.sq[m.from.0][m.from.1].expect("apply: empty from-square");
        let target = self.sq[m.to.0][m.to.1];
        n.sq[m.from.0][m.from.1] = None;
        n.sq[m.to.0][m.to.1] = Some((w, m.promo.unwrap_or(k)));
        if k == K::P && m.from.1 != m.to.1 && target.is_none() {
            n.sq[m.from.0][m.to.1] = None; // en passant victim
        }
        if k == K::K && (m.to.1 as i32 - m.from.1 as i32).abs() == 2 {
            let row = m.from.0;
            if m.to.1 == 6 { n.sq[row][7] = None; n.sq[row][5] = Some((w, K::R)); } else { n.sq[row][0] = None; n.sq[row][3] = Some((w, K::R)); }
        }
        n.ep = if k == K::P && (m.to.0 as i32 - m.from.0 as i32).abs() == 2 { Some(((m.from.0 + m.to.0) / 2, m.from.1)) } else { None };
        let corners = [(7usize, 7usize), (7, 0), (0, 7), (0, 0)];
        for i in 0..4 {
            let owner_white = i < 2;
            if (k == K::K && w == owner_white) || m.from == corners[i] || m.to == corners[i] { n.castle[i] = false; }
        }
        n.white_to_move = !self.white_to_move;
        n
    }

    pub fn pseudo(&self, captures_only: bool) -> Vec<Mv> {
        let w = self.white_to_move;
        let mut out = vec![];
        for r in 0..8usize { for c in 0..8usize {
            let (pw, k) = match self.sq[r][c] { Some(x) => x, None => continue };
            if pw != w { continue; }
            let mut push = |to: (usize, usize), out: &mut Vec<Mv>| {
                let promo_rank = if w { 0 } else { 7 };
                if k == K::P && to.0 == promo_rank {
                    for q in [K::Q, K::N, K::B, K::R] { out.push(Mv { from: (r, c), to, promo: Some(q) }); }
                } else { out.push(Mv { from: (r, c), to, promo: None }); }
            };
            match k {
                K::P => {
                    let f: i32 = if w { -1 } else { 1 };
                    let start = if w { 6 } else { 1 };
                    if !captures_only && inb(r as i32 + f, c as i32) && self.at(r as i32 + f, c as i32).is_none() {
                        push(((r as i32 + f) as usize, c), &mut out);
                        if r == start && self.at(r as i32 + 2 * f, c as i32).is_none() { push(((r as i32 + 2 * f) as usize, c), &mut out); }
                    }
                    for dc in [-1i32, 1] {
                        let (tr, tc) = (r as i32 + f, c as i32 + dc);
                        if !inb(tr, tc) { continue; }
                        if let Some((tw, _)) = self.at(tr, tc) { if tw != w { push((tr as usize, tc as usize), &mut out); } }
                        else if self.ep == Some((tr as usize, tc as usize)) && r == (if w { 3 } else { 4 }) {
                            out.push(Mv { from: (r, c), to: (tr as usize, tc as usize), promo: None });
                        }
                    }
                }
                K::N | K::K => {
                    let ds: &[(i32, i32)] = if k == K::N { &[(1, 2), (1, -2), (-1, 2), (-1, -2), (2, 1), (2, -1), (-2, 1), (-2, -1)] }
                        else { &[(1, 0), (-1, 0), (0, 1), (0, -1), (1, 1), (1, -1), (-1, 1), (-1, -1)] };
                    for (dr, dc) in ds {
                        let (tr, tc) = (r as i32 + dr, c as i32 + dc);
                        if !inb(tr, tc) { continue; }
                        match self.at(tr, tc) { None => if !captures_only { push((tr as usize, tc as usize), &mut out) }, Some((tw, _)) => if tw != w { push((tr as usize, tc as usize), &mut out) } }
                    }
                }
                K::B | K::R | K::Q => {
                    let all: [(i32, i32); 8] = [(1, 0), (-1, 0), (0, 1), (0, -1), (1, 1), (1, -1), (-1, 1), (-1, -1)];
                    let ds: &[(i32, i32)] = match k { K::R => &all[0..4], K::B => &all[4..8], _ => &all[..] };
                    for (dr, dc) in ds {
                        let (mut tr, mut tc) = (r as i32 + dr, c as i32 + dc);
                        while inb(tr, tc) {
                            match self.at(tr, tc) {
                                None => { if !captures_only { push((tr as usize, tc as usize), &mut out); } }
                                Some((tw, _)) => { if tw != w { push((tr as usize, tc as usize), &mut out); } break; }
                            }
                            tr += dr; tc += dc;
                        }
                    }
                }
            }
        } }
        out
    }

    pub fn castling(&self) -> Vec<Mv> {
        let w = self.white_to_move;
        let row = if w { 7 } else { 0 };
        let mut out = vec![];
        if self.sq[row][4] != Some((w, K::K)) { return out; }
        let (ks, qs) = if w { (0, 1) } else { (2, 3) };
        if self.castle[ks] && self.sq[row][7] == Some((w, K::R)) && self.sq[row][5].is_none() && self.sq[row][6].is_none()
            && !self.attacked(!w, row, 4) && !self.attacked(!w, row, 5) && !self.attacked(!w, row, 6) {
            out.push(Mv { from: (row, 4), to: (row, 6), promo: None });
        }
        if self.castle[qs] && self.sq[row][0] == Some((w, K::R)) && self.sq[row][1].is_none() && self.sq[row][2].is_none() && self.sq[row][3].is_none()
            && !self.attacked(!w, row, 4) && !self.attacked(!w, row, 3) && !self.attacked(!w, row, 2) {
            out.push(Mv { from: (row, 4), to: (row, 2), promo: None });
        }
        out
    }

    pub fn legal(&self, captures_only: bool) -> Vec<Mv> {
        let w = self.white_to_move;
        let mut out: Vec<Mv> = self.pseudo(captures_only).into_iter().filter(|m| !self.apply(*m).in_check(w)).collect();
        if !captures_only { out.extend(self.castling()); }
        out.sort();
        out
    }

    // the precondition of C01: a "legal chess position" in the sense of the statement
    pub fn is_legal_position(&self) -> bool {
        if self.count((true, K::K)) != 1 || self.count((false, K::K)) != 1 { return false; }
        if self.in_check(!self.white_to_move) { return false; }
        for c in 0..8 { for r in [0usize, 7] { if let Some((_, K::P)) = self.sq[r][c] { return false; } } }
        let corners = [(7usize, 7usize), (7, 0), (0, 7), (0, 0)];
        for i in 0..4 {
            if self.castle[i] {
                let w = i < 2; let row = if w { 7 } else { 0 };
                if self.sq[row][4] != Some((w, K::K)) || self.sq[corners[i].0][corners[i].1] != Some((w, K::R)) { return false; }
            }
        }
        if let Some((r, c)) = self.ep {
            let w = self.white_to_move;
            // target behind a pawn of the side that just moved, which could just have double-stepped
            let (tr, pr, hr) = if w { (2usize, 3usize, 1usize) } else { (5, 4, 6) };
            if r != tr || self.sq[r][c].is_some() || self.sq[pr][c] != Some((!w, K::P)) || self.sq[hr][c].is_some() { return false; }
        }
        true
    }

    pub fn fen(&self) -> String {
        let mut s = String::new();
        for r in 0..8 {
            let mut e = 0;
            for c in 0..8 {
                match self.sq[r][c] {
                    None => e += 1,
                    Some((w, k)) => {
                        if e > 0 { s.push_str(&e.to_string()); e = 0; }
                        let ch = match k { K::P => 'p', K::N => 'n', K::B => 'b', K::R => 'r', K::Q => 'q', K::K => 'k' };
                        s.push(if w { ch.to_ascii_uppercase() } else { ch });
                    }
                }
            }
            if e > 0 { s.push_str(&e.to_string()); }
            if r < 7 { s.push('/'); }
        }
        s.push(' '); s.push(if self.white_to_move { 'w' } else { 'b' }); s.push(' ');
        let cs: String = "KQkq".chars().enumerate().filter(|(i, _)| self.castle[*i]).map(|(_, c)| c).collect();
        s.push_str(if cs.is_empty() { "-" } else { &cs });
        s.push(' ');
        match self.ep { Some(p) => s.push_str(&sqname(p)), None => s.push('-') }
        s.push_str(" 0 1");
        s
    }

    pub fn from_fen(f: &str) -> Option<Pos> {
        let parts: Vec<&str> = f.split_whitespace().collect();
        if parts.len() < 4 { return None; }
        let mut sq = [[None; 8]; 8];
        let rows: Vec<&str> = parts[0].split('/').collect();
        if rows.len() != 8 { return None; }
        for (r, row) in rows.iter().enumerate() {
            let mut c = 0usize;
            for ch in row.chars() {
                if let Some(d) = ch.to_digit(10) { c += d as usize; continue; }
                let k = match ch.to_ascii_lowercase() { 'p' => K::P, 'n' => K::N, 'b' => K::B, 'r' => K::R, 'q' => K::Q, 'k' => K::K, _ => return None };
                if c >= 8 { return None; }
                sq[r][c] = Some((ch.is_ascii_uppercase(), k)); c += 1;
            }
            if c != 8 { return None; }
        }
        let ep = if parts[3] == "-" { None } else {
            let b = parts[3].as_bytes();
            if b.len() != 2 || !(b'a'..=b'h').contains(&b[0]) || !(b'1'..=b'8').contains(&b[1]) { return None; }
            Some(((b'8' - b[1]) as usize, (b[0] - b'a') as usize))
        };
        Some(Pos { sq, white_to_move: parts[1] == "w", castle: [parts[2].contains('K'), parts[2].contains('Q'), parts[2].contains('k'), parts[2].contains('q')], ep })
    }
}
