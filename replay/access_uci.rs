
// ---- appended to the scratch copy only (never to /repo): forwarding wrappers so that the replay tool can call private functions ----
pub fn verif_make_move(board: &mut BoardState, player_move: &str, zobrist_hasher: &ZobristHasher) { make_move(board, player_move, zobrist_hasher) }
pub fn verif_play_out_position(commands: &[&str], zobrist_hasher: &ZobristHasher, draw_table: &mut DrawTable) -> BoardState { play_out_position(commands, zobrist_hasher, draw_table) }
pub fn verif_parse_go_command(commands: &[&str]) -> GameTime { parse_go_command(commands) }
