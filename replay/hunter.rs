// Counterexample hunter / replay tool (DESIGN.md 3.4).  Built on every use against a scratch copy of /repo's
// *current* sources (crate `wr`); private functions are reached through `verif_*` forwarding wrappers appended to
// the scratch copy only.  Usage:
//   hunter hunt <PROP> <seed> <budget_seconds> [focus]   -> prints one line `CASE {json}` for the first failing input, or `NONE n_cases`
//   hunter replay <PROP> '<json case>'                  -> exit 1 if the case still fails, 0 otherwise
//   hunter cross <PROP> <seed> <budget_seconds>         -> like hunt, but also prints statistics (thorough tier, unchanged tree)
#[path = "oracle.rs"]
mod oracle;
use oracle::*;
use std::collections::HashSet;
use std::time::{Duration, Instant};
use wr::board::*;
use wr::draw_table::DrawTable;
use wr::move_generation::*;
use wr::time_control::GameTime;
use wr::zobrist::ZobristHasher;

// ---------- tiny deterministic rng ----------
struct Rng(u64);
impl Rng {
    fn next(&mut self) -> u64 { self.0 ^= self.0 << 13; self.0 ^= self.0 >> 7; self.0 ^= self.0 << 17; self.0 }
    fn below(&mut self, n: usize) -> usize { (self.next() % n as u64) as usize }
}

// ---------- conversions ----------
fn kind_of(k: PieceKind) -> K { match k { PieceKind::Pawn => K::P, PieceKind::Knight => K::N, PieceKind::Bishop => K::B, PieceKind::Rook => K::R, PieceKind::Queen => K::Q, PieceKind::King => K::K } }
fn kind_to(k: K) -> PieceKind { match k { K::P => PieceKind::Pawn, K::N => PieceKind::Knight, K::B => PieceKind::Bishop, K::R => PieceKind::Rook, K::Q => PieceKind::Queen, K::K => PieceKind::King } }

fn scratch_key(b: &BoardState, h: &ZobristHasher) -> u64 {
    let mut k = 0u64;
    for r in 2..10 { for c in 2..10 { if let Square::Full(p) = b.board[r][c] { k ^= h.get_val_for_piece(p, Point(r, c)); } } }
    if b.to_move == PieceColor::Black { k ^= h.get_black_to_move_val(); }
    if b.white_king_side_castle { k ^= h.get_val_for_castling(CastlingType::WhiteKingSide); }
    if b.white_queen_side_castle { k ^= h.get_val_for_castling(CastlingType::WhiteQueenSide); }
    if b.black_king_side_castle { k ^= h.get_val_for_castling(CastlingType::BlackKingSide); }
    if b.black_queen_side_castle { k ^= h.get_val_for_castling(CastlingType::BlackQueenSide); }
    if let Some(p) = b.pawn_double_move { k ^= h.get_val_for_en_passant(p.1); }
    k
}

fn to_board(p: &Pos, h: &ZobristHasher) -> BoardState {
    let mut board = [[Square::Boundary; 12]; 12];
    let mut wk = Point(0, 0); let mut bk = Point(0, 0);
    for r in 0..8 { for c in 0..8 {
        board[r + 2][c + 2] = match p.sq[r][c] {
            None => Square::Empty,
            Some((w, k)) => {
                if k == K::K { if w { wk = Point(r + 2, c + 2) } else { bk = Point(r + 2, c + 2) } }
                Square::Full(Piece { color: if w { PieceColor::White } else { PieceColor::Black }, kind: kind_to(k) })
            }
        };
    } }
    let mut b = BoardState {
        board, to_move: if p.white_to_move { PieceColor::White } else { PieceColor::Black },
        pawn_double_move: p.ep.map(|(r, c)| Point(r + 2, c + 2)),
        white_king_location: wk, black_king_location: bk,
        white_king_side_castle: p.castle[0], white_queen_side_castle: p.castle[1], black_king_side_castle: p.castle[2], black_queen_side_castle: p.castle[3],
        order_heuristic: 0, last_move: None, pawn_promotion: None, zobrist_key: 0,
    };
    b.zobrist_key = scratch_key(&b, h);
    b
}

fn from_board(b: &BoardState) -> Pos {
    let mut sq = [[None; 8]; 8];
    for r in 0..8 { for c in 0..8 {
        if let Square::Full(p) = b.board[r + 2][c + 2] { sq[r][c] = Some((p.color == PieceColor::White, kind_of(p.kind))); }
    } }
    Pos { sq, white_to_move: b.to_move == PieceColor::White,
          castle: [b.white_king_side_castle, b.white_queen_side_castle, b.black_king_side_castle, b.black_queen_side_castle],
          ep: b.pawn_double_move.map(|p| (p.0.wrapping_sub(2), p.1.wrapping_sub(2))) }
}

fn move_of(s: &BoardState) -> Option<Mv> {
    let (f, t) = s.last_move?;
    Some(Mv { from: (f.0.wrapping_sub(2), f.1.wrapping_sub(2)), to: (t.0.wrapping_sub(2), t.1.wrapping_sub(2)), promo: s.pawn_promotion.map(|p| kind_of(p.kind)) })
}

// text exactly as uci::send_best_move_to_gui prints it
fn printed(s: &BoardState) -> String {
    let (f, t) = s.last_move.unwrap();
    match s.pawn_promotion { Some(p) => format!("{}{}{}", f, t, p.kind.alg()), None => format!("{}{}", f, t) }
}

// ---------- checks: each returns Some(description) when the real code disagrees with the rules ----------
fn board_matches(s: &BoardState, exp: &Pos) -> Option<String> {
    let got = from_board(s);
    if got.sq != exp.sq { return Some(format!("placement differs: got {} expected {}", got.fen(), exp.fen())); }
    if got.white_to_move != exp.white_to_move { return Some("side to move differs".into()); }
    if got.castle != exp.castle { return Some(format!("castling rights differ: got {:?} expected {:?}", got.castle, exp.castle)); }
    if got.ep != exp.ep { return Some(format!("en-passant target differs: got {:?} expected {:?}", got.ep, exp.ep)); }
    let wk = exp.king(true).map(|(r, c)| Point(r + 2, c + 2)); let bk = exp.king(false).map(|(r, c)| Point(r + 2, c + 2));
    if Some(s.white_king_location) != wk || Some(s.black_king_location) != bk { return Some("cached king square differs".into()); }
    None
}

fn check_movegen(p: &Pos, h: &ZobristHasher, captures_only: bool, what: &str) -> Option<String> {
    let b = to_board(p, h);
    check_movegen_from(&b, p, h, captures_only, what)
}

// "holds equally when the starting position was itself produced by the engine's generator": start from the engine's
// own successor objects (which carry last_move / pawn_promotion / key of their history)
fn check_movegen_chain(p: &Pos, h: &ZobristHasher, captures_only: bool, what: &str) -> Option<String> {
    let b = to_board(p, h);
    for s in generate_moves(&b, MoveGenerationMode::AllMoves, h) {
        let sp = from_board(&s);
        if !sp.is_legal_position() { continue; }
        if let Some(d) = check_movegen_from(&s, &sp, h, captures_only, what) { return Some(format!("after engine successor `{}`: {}", printed(&s), d)); }
    }
    None
}

fn check_movegen_from(b: &BoardState, p: &Pos, h: &ZobristHasher, captures_only: bool, what: &str) -> Option<String> {
    let b = b.clone();
    let mode = if captures_only { MoveGenerationMode::CapturesOnly } else { MoveGenerationMode::AllMoves };
    let succ = generate_moves(&b, mode, h);
    let exp = p.legal(captures_only);
    let mut seen: HashSet<Mv> = HashSet::new();
    for s in &succ {
        let m = match move_of(s) { Some(m) => m, None => return Some("successor without last_move".into()) };
        if what == "set" || what == "all" {
            if !seen.insert(m) { return Some(format!("move {} generated twice", m.uci())); }
            if !exp.contains(&m) { return Some(format!("illegal (or non-capturing) move {} generated", m.uci())); }
        }
        if what == "succ" || what == "all" {
            if exp.contains(&m) {
                // compare with the position the rules give for the move the descriptor names
                if let Some(d) = board_matches(s, &p.apply(m)) { return Some(format!("successor of {}: {}", m.uci(), d)); }
                if printed(s) != m.uci() { return Some(format!("printed text `{}` for move {}", printed(s), m.uci())); }
            } else if exp.iter().any(|e| e.from == m.from && e.to == m.to) {
                return Some(format!("descriptor `{}` names no legal move: promotion letter present/absent wrongly", printed(s)));
            }
        }
        if what == "key" || what == "all" {
            if s.zobrist_key != scratch_key(s, h) { return Some(format!("successor of {}: incremental key {:016x} != from-scratch key {:016x}", m.uci(), s.zobrist_key, scratch_key(s, h))); }
        }
    }
    if what == "set" || what == "all" {
        for m in &exp { if !seen.contains(m) { return Some(format!("legal move {} missing", m.uci())); } }
    }
    None
}

fn check_is_check(p: &Pos, h: &ZobristHasher) -> Option<String> {
    let b = to_board(p, h);
    for w in [true, false] {
        let got = is_check(&b, if w { PieceColor::White } else { PieceColor::Black });
        let exp = p.in_check(w);
        if got != exp { return Some(format!("is_check({}) = {} but the rules say {}", if w { "White" } else { "Black" }, got, exp)); }
    }
    None
}

fn check_make_move(p: &Pos, h: &ZobristHasher) -> Option<String> {
    let b = to_board(p, h);
    for m in p.legal(false) {
        let mut nb = b.clone();
        let txt = m.uci();
        let r = std::panic::catch_unwind(std::panic::AssertUnwindSafe(|| { wr::uci::verif_make_move(&mut nb, &txt, h); }));
        if r.is_err() { return Some(format!("make_move panicked on {}", txt)); }
        if let Some(d) = board_matches(&nb, &p.apply(m)) { return Some(format!("position after `{}`: {}", txt, d)); }
        if nb.zobrist_key != scratch_key(&nb, h) { return Some(format!("after `{}`: incremental key != from-scratch key", txt)); }
    }
    // every generated successor, printed and replayed, reproduces itself
    for s in generate_moves(&b, MoveGenerationMode::AllMoves, h) {
        let txt = printed(&s);
        let mut nb = b.clone();
        let r = std::panic::catch_unwind(std::panic::AssertUnwindSafe(|| { wr::uci::verif_make_move(&mut nb, &txt, h); }));
        if r.is_err() { return Some(format!("make_move panicked on generated move text {}", txt)); }
        if from_board(&nb) != from_board(&s) || nb.zobrist_key != s.zobrist_key { return Some(format!("generated move `{}` replayed as text gives a different position/key than its successor", txt)); }
    }
    None
}

fn mirror(p: &Pos) -> Pos {
    let mut sq = [[None; 8]; 8];
    for r in 0..8 { for c in 0..8 { sq[r][c] = p.sq[7 - r][c].map(|(w, k)| (!w, k)); } }
    Pos { sq, white_to_move: !p.white_to_move, castle: [p.castle[2], p.castle[3], p.castle[0], p.castle[1]], ep: p.ep.map(|(r, c)| (7 - r, c)) }
}

fn check_eval(p: &Pos, h: &ZobristHasher) -> Option<String> {
    let b = to_board(p, h);
    let e = get_evaluation(&b);
    let m = get_evaluation(&to_board(&mirror(p), h));
    if e != m { return Some(format!("evaluation {} but mirrored twin {}", e, m)); }
    let mut o = p.clone(); o.white_to_move = !o.white_to_move; o.ep = None;
    let n = get_evaluation(&to_board(&o, h));
    if n != -e { return Some(format!("evaluation {} but other side to move {}", e, n)); }
    let mut b2 = b.clone(); b2.order_heuristic = 77; b2.last_move = Some((Point(2, 2), Point(3, 3))); b2.zobrist_key ^= 1; b2.white_king_side_castle = !b2.white_king_side_castle;
    b2.pawn_promotion = Some(Piece { color: PieceColor::White, kind: PieceKind::Queen }); b2.pawn_double_move = Some(Point(4, 4)); b2.black_queen_side_castle = !b2.black_queen_side_castle;
    if get_evaluation(&b2) != e { return Some("evaluation depends on something other than placement and side".into()); }
    if e.abs() >= 100000 - 15 { return Some(format!("evaluation {} reaches the mate range", e)); }
    None
}

// ---------- position sources ----------
const CURATED: &[&str] = &[
    "rnbqkbnr/pppppppp/8/8/8/8/PPPPPPPP/RNBQKBNR w KQkq - 0 1",
    "r3k2r/p1ppqpb1/bn2pnp1/3PN3/1p2P3/2N2Q1p/PPPBBPPP/R3K2R w KQkq - 0 1",
    "8/2p5/3p4/KP5r/1R3p1k/8/4P1P1/8 w - - 0 1",
    "r3k2r/Pppp1ppp/1b3nbN/nP6/BBP1P3/q4N2/Pp1P2PP/R2Q1RK1 w kq - 0 1",
    "rnbq1k1r/pp1Pbppp/2p5/8/2B5/8/PPP1NnPP/RNBQK2R w KQ - 1 8",
    "r4rk1/1pp1qppp/p1np1n2/2b1p1B1/2B1P1b1/P1NP1N2/1PP1QPPP/R4RK1 w - - 0 10",
    "8/8/8/8/8/8/6k1/4K2R w K - 0 1",
    "8/8/8/8/8/8/2k5/R3K3 w Q - 0 1",
    "4k2r/6K1/8/8/8/8/8/8 b k - 0 1",
    "r3k3/2K5/8/8/8/8/8/8 b q - 0 1",
    "r3k2r/8/8/8/8/8/p7/4K2R b Kkq - 0 1",
    "r3k2r/8/8/8/8/8/7p/R3K3 b Qkq - 0 1",
    "4k3/8/8/8/8/8/4P3/4K3 w - - 0 1",
    "rnbqkbnr/pppp1ppp/8/4p3/4P3/8/PPPP1PPP/RNBQKBNR w KQkq e6 0 2",
    "rnbqkbnr/ppp1pppp/8/3p4/4P3/8/PPPP1PPP/RNBQKBNR w KQkq d6 0 2",
    "4k3/8/8/3pP3/8/5n2/6P1/4K3 w - d6 0 1",
    "1r2k3/P7/8/8/8/8/8/4K3 w - - 0 1",
    "4k3/8/8/8/8/8/p7/1R2K3 b - - 0 1",
    "8/8/8/2k5/3Pp3/8/8/4K3 b - d3 0 1",
    "8/8/8/8/k2Pp2Q/8/8/4K3 b - d3 0 1",
    "4k3/8/8/K2pP2r/8/8/8/8 w - d6 0 1",
    "r3k2r/pppppppp/8/8/8/8/PPPPPPPP/R3K2R w KQkq - 0 1",
    "r3k2r/8/8/8/8/8/8/R3K2R b KQkq - 0 1",
    "r3k2r/8/8/8/8/8/8/1R2K2R b Kkq - 0 1",
    "4k3/P6P/8/8/8/8/p6p/4K3 w - - 0 1",
    "n1n5/PPPk4/8/8/8/8/4Kppp/5N1N b - - 0 1",
    "8/8/1k6/8/2pP4/8/5BK1/8 b - d3 0 1",
    "4k3/8/8/8/8/8/8/R3K2R w KQ - 0 1",
    "4k3/8/8/8/8/5n2/8/R3K2R w KQ - 0 1",
    "4k3/8/8/8/8/2b5/8/R3K2R w KQ - 0 1",
    "4k3/8/8/8/1b6/8/8/R3K2R w KQ - 0 1",
    "4k2r/8/8/8/8/8/8/4K2R w Kk - 0 1",
    "6k1/8/8/8/8/8/3p4/4K2R w K - 0 1",
    "4k3/8/8/8/8/8/5p2/R3K2R w KQ - 0 1",
    "k6R/8/8/8/8/8/8/K7 b - - 0 1",
    "7k/8/8/8/8/8/8/Q6K b - - 0 1",
    "k7/P7/1K6/8/8/8/8/8 b - - 0 1",
    "8/8/8/4k3/8/3K4/8/8 w - - 0 1",
    "8/8/8/8/8/8/1k6/R3K3 w Q - 0 1",
    "r3k3/8/8/8/8/8/8/R3K3 w Q - 0 1",
    "4k3/6b1/8/8/8/8/P7/R3K3 w Q - 0 1",
    "r3k2r/8/8/8/4P3/8/8/R3K2R b KQkq e3 0 1",
    "3r2k1/5ppp/8/8/2P5/8/1n6/3R2K1 w - - 0 1",
];

fn random_placement(rng: &mut Rng) -> Pos {
    // two kings + up to 6 random pieces; castling/en-passant flags set only when the statement's preconditions allow them
    loop {
        let mut sq = [[None; 8]; 8];
        let wk = (rng.below(8), rng.below(8)); let bk = (rng.below(8), rng.below(8));
        if wk == bk { continue; }
        sq[wk.0][wk.1] = Some((true, K::K)); sq[bk.0][bk.1] = Some((false, K::K));
        // bias towards castling set-ups
        if rng.below(3) == 0 { sq[wk.0][wk.1] = None; sq[7][4] = Some((true, K::K)); if sq[7][7].is_none() { sq[7][7] = Some((true, K::R)); } if rng.below(2) == 0 && sq[7][0].is_none() { sq[7][0] = Some((true, K::R)); } }
        if rng.below(3) == 0 { sq[bk.0][bk.1] = None; sq[0][4] = Some((false, K::K)); if sq[0][7].is_none() { sq[0][7] = Some((false, K::R)); } if rng.below(2) == 0 && sq[0][0].is_none() { sq[0][0] = Some((false, K::R)); } }
        let n = rng.below(7);
        for _ in 0..n {
            let (r, c) = (rng.below(8), rng.below(8));
            if sq[r][c].is_some() { continue; }
            let k = [K::P, K::P, K::P, K::N, K::B, K::R, K::Q][rng.below(7)];
            if k == K::P && (r == 0 || r == 7) { continue; }
            sq[r][c] = Some((rng.below(2) == 0, k));
        }
        let mut p = Pos { sq, white_to_move: rng.below(2) == 0, castle: [false; 4], ep: None };
        if p.count((true, K::K)) != 1 || p.count((false, K::K)) != 1 { continue; }
        let corners = [(7usize, 7usize), (7, 0), (0, 7), (0, 0)];
        for i in 0..4 { let w = i < 2; let row = if w { 7 } else { 0 };
            if p.sq[row][4] == Some((w, K::K)) && p.sq[corners[i].0][corners[i].1] == Some((w, K::R)) && rng.below(4) != 0 { p.castle[i] = true; } }
        // en passant target where possible
        let w = p.white_to_move; let (tr, pr, hr) = if w { (2usize, 3usize, 1usize) } else { (5, 4, 6) };
        for c in 0..8 { if p.sq[pr][c] == Some((!w, K::P)) && p.sq[tr][c].is_none() && p.sq[hr][c].is_none() && rng.below(2) == 0 { p.ep = Some((tr, c)); break; } }
        if !p.is_legal_position() { continue; }
        return p;
    }
}

// any placement with exactly one king per side (kings may touch, either side may be in check): the domain of C06
fn random_any_placement(rng: &mut Rng) -> Pos {
    let mut sq = [[None; 8]; 8];
    let wk = (rng.below(8), rng.below(8));
    let bk = loop {
        // half of the time the kings are neighbours
        let c = if rng.below(2) == 0 { ((wk.0 as i32 + rng.below(3) as i32 - 1).clamp(0, 7) as usize, (wk.1 as i32 + rng.below(3) as i32 - 1).clamp(0, 7) as usize) } else { (rng.below(8), rng.below(8)) };
        if c != wk { break c; }
    };
    sq[wk.0][wk.1] = Some((true, K::K)); sq[bk.0][bk.1] = Some((false, K::K));
    // now and then a crowded board (many heavy pieces: game phase above the 24 cap)
    let n = if rng.below(4) == 0 { rng.below(28) } else { rng.below(9) };
    for _ in 0..n {
        let (r, c) = (rng.below(8), rng.below(8));
        if sq[r][c].is_some() { continue; }
        let k = [K::P, K::P, K::N, K::B, K::R, K::Q, K::B, K::Q][rng.below(8)];
        sq[r][c] = Some((rng.below(2) == 0, k));
    }
    Pos { sq, white_to_move: rng.below(2) == 0, castle: [false; 4], ep: None }
}
struct Source { rng: Rng, idx: usize, walk: Option<(Pos, usize)> }
impl Source {
    fn next(&mut self) -> Pos {
        if self.idx < CURATED.len() { self.idx += 1; return Pos::from_fen(CURATED[self.idx - 1]).unwrap(); }
        self.idx += 1;
        // alternate: random placements and random walks (by the ORACLE's move generator) from curated positions
        if self.idx % 2 == 0 { return random_placement(&mut self.rng); }
        let (p, left) = match self.walk.take() { Some((p, l)) if l > 0 => (p, l), _ => (Pos::from_fen(CURATED[self.rng.below(CURATED.len())]).unwrap(), 40) };
        let ms = p.legal(false);
        if ms.is_empty() { self.walk = None; return p; }
        let n = p.apply(ms[self.rng.below(ms.len())]);
        self.walk = Some((n.clone(), left - 1));
        n
    }
}

fn jesc(s: &str) -> String {
    // JSON string escaping incl. control characters (a mutated FEN may carry NUL, TAB, CR, LF)
    let mut o = String::new();
    for c in s.chars() {
        match c {
            '\\' => o.push_str("\\\\"),
            '"' => o.push_str("\\\""),
            c if (c as u32) < 0x20 => o.push_str(&format!("\\u{:04x}", c as u32)),
            c => o.push(c),
        }
    }
    o
}

fn check_pos(prop: &str, focus: &str, p: &Pos, h: &ZobristHasher) -> Option<String> {
    match prop {
        "C01" => check_movegen(p, h, false, "set").or_else(|| if focus == "nochain" { None } else { check_movegen_chain(p, h, false, "set") }),
        "C02" => check_movegen(p, h, false, "succ").or_else(|| check_movegen(p, h, true, "succ")).or_else(|| if focus == "nochain" { None } else { check_movegen_chain(p, h, false, "succ") }),
        "C05" => check_movegen(p, h, false, "key").or_else(|| check_movegen(p, h, true, "key")).or_else(|| if focus == "nochain" { None } else { check_movegen_chain(p, h, false, "key") }).or_else(|| if focus == "nomm" { None } else { check_make_move(p, h).filter(|d| d.contains("key")) }),
        "C13" => check_movegen(p, h, true, "set").or_else(|| check_movegen(p, h, true, "succ")),
        "C06" => check_is_check(p, h),
        "C04" => check_make_move(p, h),
        "C14" => check_eval(p, h),
        _ => None,
    }
}

// C13 "along any chain of capture-only generations": follow capture-only successors of the ENGINE and re-check
fn check_capture_chain(p: &Pos, h: &ZobristHasher, depth: usize) -> Option<String> {
    if let Some(d) = check_movegen(p, h, true, "set").or_else(|| check_movegen(p, h, true, "succ")) { return Some(d); }
    if depth == 0 { return None; }
    let b = to_board(p, h);
    for s in generate_moves(&b, MoveGenerationMode::CapturesOnly, h) {
        // the successor as the engine holds it (including a possibly stale en-passant target)
        let sp = from_board(&s);
        let mut exp = sp.legal(true); exp.sort();
        let mut got: Vec<Mv> = generate_moves(&s, MoveGenerationMode::CapturesOnly, h).iter().filter_map(move_of).collect(); got.sort();
        let rules = p.apply(move_of(&s)?);
        let mut want = rules.legal(true); want.sort();
        if got != want { return Some(format!("after capture-only {}: generated captures {:?} but the rules give {:?}", move_of(&s)?.uci(), got.iter().map(|m| m.uci()).collect::<Vec<_>>(), want.iter().map(|m| m.uci()).collect::<Vec<_>>())); }
        let _ = exp;
    }
    None
}

fn hunt_positions(prop: &str, focus: &str, seed: u64, budget: f64, stats: bool) -> i32 {
    std::panic::set_hook(Box::new(|_| {}));
    let h = ZobristHasher::create_zobrist_hasher();
    let mut src = Source { rng: Rng(seed.wrapping_mul(0x9E3779B97F4A7C15) | 1), idx: 0, walk: None };
    let t0 = Instant::now();
    let mut n = 0u64; let mut distinct: HashSet<Pos> = HashSet::new();
    while t0.elapsed() < Duration::from_secs_f64(budget) || n < CURATED.len() as u64 {
        let any_placement = prop == "C06" || prop == "C14";
        let p = if any_placement && n % 2 == 1 { random_any_placement(&mut src.rng) } else { src.next() };
        if !any_placement && !p.is_legal_position() { continue; }
        n += 1;
        if stats { distinct.insert(p.clone()); }
        let mut r = match std::panic::catch_unwind(std::panic::AssertUnwindSafe(|| {
            let mut r = check_pos(prop, focus, &p, &h);
            if r.is_none() && prop == "C13" { r = check_capture_chain(&p, &h, 1); }
            r })) { Ok(r) => r, Err(_) => Some("the engine panicked on this position".to_string()) };
        if let Some(d) = r.take() {
            println!("CASE {{\"kind\":\"position\",\"fen\":\"{}\",\"observed\":\"{}\",\"input_id\":\"{}\"}}", p.fen(), jesc(&d), p.fen());
            return 1;
        }
    }
    if stats { println!("STATS positions={} distinct={}", n, distinct.len()); }
    println!("NONE {}", n);
    0
}

// ---------- C10: table operations ----------
fn check_draw(count: u8) -> Option<String> {
    let h = ZobristHasher::create_zobrist_hasher();
    let b = to_board(&Pos::from_fen(CURATED[0]).unwrap(), &h);
    let other = to_board(&Pos::from_fen(CURATED[1]).unwrap(), &h);
    let mut t = DrawTable::new();
    if !t.table.is_empty() { return Some("new table not empty".into()); }
    t.table.insert(other.zobrist_key, 1);
    for i in 0..count { t.add_board_to_draw_table(&b); if t.table.get(&b.zobrist_key) != Some(&(i + 1)) { return Some(format!("count after {} additions is {:?}", i + 1, t.table.get(&b.zobrist_key))); } }
    if t.table.get(&other.zobrist_key) != Some(&1) { return Some("adding one position changed another position's count".into()); }
    let mut bb = b.clone(); bb.order_heuristic = 9_999_999; bb.last_move = Some((Point(9, 6), Point(9, 8))); bb.pawn_promotion = Some(Piece { color: PieceColor::Black, kind: PieceKind::Knight });
    if t.is_threefold_repetition(&bb) != (count >= 2) { return Some(format!("position already seen {} times, probed with a board that carries search ordering data: is_threefold_repetition = {}", count, !(count >= 2))); }
    let got = t.is_threefold_repetition(&b);
    if got != (count >= 2) { return Some(format!("position already seen {} times: is_threefold_repetition = {}", count, got)); }
    // remove: exact inverse of add on a present key, frame on the other keys, nothing at all on an absent key
    if count >= 1 {
        let mut t2 = DrawTable::new();
        t2.table.insert(other.zobrist_key, 1);
        for _ in 0..count { t2.add_board_to_draw_table(&b); }
        t2.remove_board_from_draw_table(&b);
        let left = t2.table.get(&b.zobrist_key).copied().unwrap_or(0);
        if left != count - 1 { return Some(format!("remove after {} additions leaves count {} (expected {})", count, left, count - 1)); }
        if t2.table.get(&other.zobrist_key) != Some(&1) { return Some("removing one position changed another position's count".into()); }
    } else {
        let mut t3 = DrawTable::new();
        t3.table.insert(other.zobrist_key, 1);
        t3.remove_board_from_draw_table(&b);
        if t3.table.get(&b.zobrist_key).copied().unwrap_or(0) != 0 { return Some("remove of a position that never occurred created a count".into()); }
        if t3.table.get(&other.zobrist_key) != Some(&1) { return Some("remove of a position that never occurred changed another position's count".into()); }
    }
    t.clear();
    if !t.table.is_empty() { return Some("clear left entries behind".into()); }
    None
}

// ---------- C09 / C15: small numeric / text domains ----------
fn check_slice(gt: &GameTime, white: bool) -> Option<String> {
    let s = gt.calculate_time_slice(if white { PieceColor::White } else { PieceColor::Black });
    let (clock, inc) = if white { (gt.wtime, gt.winc) } else { (gt.btime, gt.binc) };
    if clock > 100 && (s as i128) > clock { return Some(format!("slice {} exceeds the mover's clock {}", s, clock)); }
    if clock <= 100 && inc <= 0 && s != 0 { return Some(format!("no usable clock and no increment but slice {}", s)); }
    if clock > 100 && clock < (1i128 << 40) {
        let mtg = gt.movestogo.unwrap_or(30) as i128;
        if mtg >= 1 { let lhs = (s as i128) * mtg * 10; let rhs = 8 * (clock - 100); if (lhs - rhs).abs() > 10 * mtg { return Some(format!("slice {} is not 80% of (clock-100)/mtg for clock {} mtg {}", s, clock, mtg)); } }
    }
    None
}
fn hunt_slice(seed: u64, budget: f64) -> i32 {
    let mut rng = Rng(seed | 1); let t0 = Instant::now(); let mut n = 0u64;
    let vals: Vec<i128> = vec![-1000, -1, 0, 1, 50, 99, 100, 101, 102, 150, 1000, 60000, 3600000, i64::MAX as i128, i128::MAX / 4];
    loop {
        for &w in &vals { for &b in &vals { for &wi in &[-5i128, 0, 1, 1000] { for &bi in &[-5i128, 0, 1, 1000] { for mtg in [None, Some(1u32), Some(2), Some(30), Some(40), Some(u32::MAX)] { for white in [true, false] {
            let gt = GameTime { wtime: w, btime: b, winc: wi, binc: bi, movestogo: mtg };
            n += 1;
            if let Some(d) = check_slice(&gt, white) {
                println!("CASE {{\"kind\":\"go\",\"wtime\":\"{}\",\"btime\":\"{}\",\"winc\":\"{}\",\"binc\":\"{}\",\"movestogo\":\"{:?}\",\"white\":{},\"observed\":\"{}\",\"input_id\":\"go\"}}", w, b, wi, bi, mtg, white, jesc(&d));
                return 1;
            }
        } } } } } }
        // random
        while t0.elapsed() < Duration::from_secs_f64(budget) {
            let gt = GameTime { wtime: (rng.next() % 10_000_000) as i128 - 1000, btime: (rng.next() % 10_000_000) as i128 - 1000, winc: (rng.next() % 5000) as i128 - 100, binc: (rng.next() % 5000) as i128 - 100, movestogo: if rng.below(2) == 0 { None } else { Some(1 + rng.below(100) as u32) } };
            let white = rng.below(2) == 0; n += 1;
            if let Some(d) = check_slice(&gt, white) {
                println!("CASE {{\"kind\":\"go\",\"wtime\":\"{}\",\"btime\":\"{}\",\"winc\":\"{}\",\"binc\":\"{}\",\"movestogo\":\"{:?}\",\"white\":{},\"observed\":\"{}\",\"input_id\":\"go\"}}", gt.wtime, gt.btime, gt.winc, gt.binc, gt.movestogo, white, jesc(&d));
                return 1;
            }
        }
        break;
    }
    println!("NONE {}", n); 0
}

fn check_point_text(bytes: &[u8]) -> Option<String> {
    let s = match std::str::from_utf8(bytes) { Ok(s) => s.to_string(), Err(_) => return None };
    let r = std::panic::catch_unwind(|| s.parse::<Point>());
    match r {
        Err(_) => Some("Point::from_str panicked".into()),
        Ok(Ok(p)) => {
            let b = s.as_bytes();
            if b.len() != 2 || !(b'a'..=b'h').contains(&b[0]) || !(b'1'..=b'8').contains(&b[1]) { return Some(format!("accepted as {:?}", (p.0, p.1))); }
            if p != Point(10 - (b[1] - b'0') as usize, (b[0] - b'a') as usize + 2) { return Some(format!("decoded to {:?}", (p.0, p.1))); }
            None
        }
        Ok(Err(_)) => { let b = s.as_bytes(); if b.len() == 2 && (b'a'..=b'h').contains(&b[0]) && (b'1'..=b'8').contains(&b[1]) { Some("well-formed square rejected".into()) } else { None } }
    }
}
fn hunt_point() -> i32 {
    std::panic::set_hook(Box::new(|_| {}));
    let mut n = 0u64;
    let mut inputs: Vec<Vec<u8>> = vec![vec![]];
    for a in 0..=255u8 { inputs.push(vec![a]); for b in 0..=255u8 { inputs.push(vec![a, b]); } }
    for a in [b'a', b'e', b'h', 0xc3, 0xe2] { for b in [b'1', b'8', 0xa9, 0x82] { for c in [b'1', 0xac, b'x'] { inputs.push(vec![a, b, c]); inputs.push(vec![a, b, c, b'1']); } } }
    for i in inputs { n += 1; if let Some(d) = check_point_text(&i) {
        println!("CASE {{\"kind\":\"point\",\"bytes\":{:?},\"observed\":\"{}\",\"input_id\":\"{:?}\"}}", i, jesc(&d), i); return 1; } }
    println!("NONE {}", n); 0
}


// ---------- C15: from_fen (BOUNDED native stand-in; the function is outside both verifiers) ----------
fn check_fen_text(text: &str, expect: Option<&Pos>) -> Option<String> {
    let t = text.to_string();
    let r = std::panic::catch_unwind(move || BoardState::from_fen(&t).map_err(|e| e.to_string()));
    match r {
        Err(_) => Some("from_fen panicked".into()),
        Ok(Err(e)) => expect.map(|_| format!("well-formed FEN of a legal position rejected: {}", e)),
        Ok(Ok(b)) => {
            // whatever text was accepted, the returned board must be a well-formed mailbox: sentinel ring intact, no sentinel inside
            for r in 0..12 { for c in 0..12 {
                let inside = (2..10).contains(&r) && (2..10).contains(&c);
                if (b.board[r][c] == Square::Boundary) == inside { return Some(format!("accepted text yields a corrupt board: cell ({},{}) is {}", r, c, if inside { "a sentinel inside the board" } else { "not a sentinel outside the board" })); }
            } }
            if let Some(p) = expect {
                let h = ZobristHasher::create_zobrist_hasher();
                if let Some(d) = board_matches(&b, p) { return Some(format!("loaded position differs from the FEN: {}", d)); }
                if b.zobrist_key != scratch_key(&b, &h) { return Some("key of the loaded position is not its from-scratch key".into()); }
            }
            None
        }
    }
}
fn hunt_fen(seed: u64, budget: f64, stats: bool) -> i32 {
    std::panic::set_hook(Box::new(|_| {}));
    let mut src = Source { rng: Rng(seed.wrapping_mul(0x9E3779B97F4A7C15) | 1), idx: 0, walk: None };
    let mut rng = Rng(seed.wrapping_mul(77) | 1);
    let t0 = Instant::now(); let mut n = 0u64; let mut nw = 0u64;
    let counters = ["0 1", "3 17", "99 120", "0 255", "0 256", "12 300", "150 1000", "0 65535"];
    while t0.elapsed() < Duration::from_secs_f64(budget) || n < (CURATED.len() * counters.len()) as u64 {
        let p = src.next();
        if !p.is_legal_position() { continue; }
        let base = p.fen();
        let stem = base.rsplitn(3, ' ').nth(2).unwrap().to_string();
        // faithful: every counter pair, same position
        let c = if (n as usize) < CURATED.len() * counters.len() { counters[(n as usize) % counters.len()] } else { counters[rng.below(counters.len())] };
        let text = format!("{} {}", stem, c);
        n += 1; nw += 1;
        if let Some(d) = check_fen_text(&text, Some(&p)) {
            println!("CASE {{\"kind\":\"fen\",\"text\":\"{}\",\"wellformed\":true,\"observed\":\"{}\",\"input_id\":\"counters={}\"}}", jesc(&text), jesc(&d), c);
            return 1;
        }
        // total: mutate the text (byte substitution / deletion / insertion / truncation); only ASCII so it stays valid UTF-8,
        // plus a few multi-byte characters
        let mut bytes: Vec<char> = text.chars().collect();
        for _ in 0..1 + rng.below(3) {
            if bytes.is_empty() { break; }
            let i = rng.below(bytes.len());
            let pool = ['/', ' ', '-', '9', '0', '8', 'k', 'K', 'x', 'w', 'b', 'e', '3', '6', 'a', 'h', 'i', 'é', '→', '\n', '\r', '٨', '½', 'Ⅷ', '８', '²', '\u{0}', '\t'];
            match rng.below(4) { 0 => { bytes[i] = pool[rng.below(pool.len())]; } 1 => { bytes.remove(i); } 2 => { bytes.insert(i, pool[rng.below(pool.len())]); } _ => { bytes.truncate(i); } }
        }
        let m: String = bytes.into_iter().collect();
        n += 1;
        if let Some(d) = check_fen_text(&m, None) {
            println!("CASE {{\"kind\":\"fen\",\"text\":\"{}\",\"wellformed\":false,\"observed\":\"{}\",\"input_id\":\"{}\"}}", jesc(&m), jesc(&d), jesc(&m));
            return 1;
        }
    }
    if stats { println!("STATS inputs={} wellformed={}", n, nw); }
    println!("NONE {}", n); 0
}

// ---------- C04 / C10: the `position` handler (BOUNDED native stand-in: play_out_position is string code) ----------
fn check_playout(start: &Pos, use_fen: bool, moves: &[Mv], h: &ZobristHasher) -> Option<String> {
    // what the rules give
    let mut cur = start.clone();
    let mut keys: Vec<u64> = vec![scratch_key(&to_board(&cur, h), h)];
    for m in moves { cur = cur.apply(*m); keys.push(scratch_key(&to_board(&cur, h), h)); }
    // what the engine does for `position ... moves ...` (the handler clears the table first)
    let mut cmd: Vec<String> = vec!["position".into()];
    if use_fen { cmd.push("fen".into()); for f in start.fen().split(' ') { cmd.push(f.to_string()); } } else { cmd.push("startpos".into()); }
    if !moves.is_empty() { cmd.push("moves".into()); for m in moves { cmd.push(m.uci()); } }
    let refs: Vec<&str> = cmd.iter().map(|x| x.as_str()).collect();
    let mut table = DrawTable::new();
    table.table.insert(0xdead_beef, 2); // left over from an earlier position command
    table.clear();
    let r = std::panic::catch_unwind(std::panic::AssertUnwindSafe(|| wr::uci::verif_play_out_position(&refs, h, &mut table)));
    let b = match r { Ok(b) => b, Err(_) => return Some("play_out_position panicked".into()) };
    if let Some(d) = board_matches(&b, &cur) { return Some(format!("position after replay: {}", d)); }
    if b.zobrist_key != *keys.last().unwrap() { return Some("key after replay is not the from-scratch key".into()); }
    let mut want: std::collections::HashMap<u64, u8> = std::collections::HashMap::new();
    for k in &keys { *want.entry(*k).or_insert(0) += 1; }
    if table.table != want {
        let first = keys[0];
        return Some(format!("repetition record differs: {} entries (expected {}), start position counted {:?} (expected {:?})", table.table.len(), want.len(), table.table.get(&first), want.get(&first)));
    }
    None
}
fn hunt_playout(seed: u64, budget: f64, stats: bool) -> i32 {
    std::panic::set_hook(Box::new(|_| {}));
    let h = ZobristHasher::create_zobrist_hasher();
    let mut rng = Rng(seed.wrapping_mul(0x2545F4914F6CDD1D) | 1);
    let t0 = Instant::now(); let mut n = 0u64;
    while t0.elapsed() < Duration::from_secs_f64(budget) || n < 200 {
        let use_fen = n % 2 == 1;
        let start = if use_fen { let mut p; loop { p = if rng.below(2) == 0 { Pos::from_fen(CURATED[rng.below(CURATED.len())]).unwrap() } else { random_placement(&mut rng) }; if p.is_legal_position() { break; } } p } else { Pos::from_fen(CURATED[0]).unwrap() };
        let mut cur = start.clone(); let mut moves: Vec<Mv> = vec![];
        let len = rng.below(24);
        let mut hist: Vec<Pos> = vec![cur.clone()];
        for _ in 0..len {
            let ms = cur.legal(false);
            if ms.is_empty() { break; }
            // prefer moves that return to an earlier position (repetitions), otherwise random
            let back: Vec<Mv> = ms.iter().cloned().filter(|m| hist.contains(&cur.apply(*m))).collect();
            let m = if !back.is_empty() && rng.below(2) == 0 { back[rng.below(back.len())] } else { ms[rng.below(ms.len())] };
            cur = cur.apply(m); moves.push(m); hist.push(cur.clone());
        }
        n += 1;
        if let Some(d) = check_playout(&start, use_fen, &moves, &h) {
            let ms: Vec<String> = moves.iter().map(|m| m.uci()).collect();
            println!("CASE {{\"kind\":\"playout\",\"fen\":\"{}\",\"use_fen\":\"{}\",\"moves\":\"{}\",\"observed\":\"{}\",\"input_id\":\"{} moves {}\"}}", start.fen(), use_fen, ms.join(" "), jesc(&d), start.fen(), ms.join(" "));
            return 1;
        }
    }
    if stats { println!("STATS games={}", n); }
    println!("NONE {}", n); 0
}
fn parse_uci(p: &Pos, t: &str) -> Option<Mv> { p.legal(false).into_iter().find(|m| m.uci() == t) }

// ---------- C05: "changing any single component of a position changes the key" -- exhaustive over the REAL table ----------
fn check_tables() -> Option<String> {
    let h = ZobristHasher::create_zobrist_hasher();
    let kinds = [PieceKind::Pawn, PieceKind::Knight, PieceKind::Bishop, PieceKind::Rook, PieceKind::Queen, PieceKind::King];
    let mut all: Vec<u64> = vec![];
    for r in 2..10 { for c in 2..10 {
        let mut here: Vec<u64> = vec![];
        for col in [PieceColor::White, PieceColor::Black] { for k in kinds { here.push(h.get_val_for_piece(Piece { color: col, kind: k }, Point(r, c))); } }
        for (i, a) in here.iter().enumerate() {
            if *a == 0 { return Some(format!("piece-square constant for square ({},{}) is zero: placing that piece does not change the key", r, c)); }
            for b in &here[i + 1..] { if a == b { return Some(format!("two pieces share a constant on square ({},{}): swapping them does not change the key", r, c)); } }
        }
        all.extend(here);
    } }
    let side = h.get_black_to_move_val();
    let castles = [h.get_val_for_castling(CastlingType::WhiteKingSide), h.get_val_for_castling(CastlingType::WhiteQueenSide), h.get_val_for_castling(CastlingType::BlackKingSide), h.get_val_for_castling(CastlingType::BlackQueenSide)];
    let eps: Vec<u64> = (2..10).map(|f| h.get_val_for_en_passant(f)).collect();
    if side == 0 { return Some("side-to-move constant is zero".into()); }
    for c in castles { if c == 0 { return Some("a castling constant is zero".into()); } }
    for (i, a) in eps.iter().enumerate() { if *a == 0 { return Some("an en-passant file constant is zero".into()); } for b in &eps[i + 1..] { if a == b { return Some("two en-passant files share a constant".into()); } } }
    // all 768 + 1 + 4 + 8 constants pairwise different (no component can stand in for another)
    all.push(side); all.extend(castles); all.extend(eps);
    let n = all.len(); all.sort(); all.dedup();
    if all.len() != n { return Some("two different components share a constant".into()); }
    None
}

// ---------- C09: `go` token routing (BOUNDED native stand-in: parse_go_command is string code) ----------
fn hunt_go_parse(seed: u64, budget: f64, stats: bool) -> i32 {
    std::panic::set_hook(Box::new(|_| {}));
    let mut rng = Rng(seed.wrapping_mul(0xD1342543DE82EF95) | 1);
    let t0 = Instant::now(); let mut n = 0u64;
    while t0.elapsed() < Duration::from_secs_f64(budget) || n < 2000 {
        let mut fields: Vec<(&str, i128)> = vec![];
        for name in ["wtime", "btime", "winc", "binc", "movestogo"] {
            if rng.below(4) != 0 {
                let v: i128 = match rng.below(6) { 0 => 0, 1 => 1, 2 => 100, 3 => (rng.next() % 200) as i128, 4 => (rng.next() % 10_000_000) as i128, _ => -((rng.next() % 5000) as i128) };
                let v = if name == "movestogo" { 1 + (v.abs() % 200) } else { v };
                fields.push((name, v));
            }
        }
        // random order, unknown tokens in between
        for i in (1..fields.len()).rev() { let j = rng.below(i + 1); fields.swap(i, j); }
        let mut cmd: Vec<String> = vec!["go".into()];
        for (name, v) in &fields {
            if rng.below(5) == 0 { cmd.push(["infinite", "ponder", "searchmoves", "nodes"][rng.below(4)].to_string()); }
            cmd.push(name.to_string()); cmd.push(v.to_string());
        }
        if rng.below(3) == 0 { cmd.push("depth".into()); cmd.push("7".into()); }
        let refs: Vec<&str> = cmd.iter().map(|x| x.as_str()).collect();
        let r = std::panic::catch_unwind(|| wr::uci::verif_parse_go_command(&refs));
        n += 1;
        let get = |k: &str| fields.iter().find(|(a, _)| *a == k).map(|(_, v)| *v);
        let line = cmd.join(" ");
        let bad = match r {
            Err(_) => Some("parse_go_command panicked on well-formed tokens".to_string()),
            Ok(gt) => {
                if gt.wtime != get("wtime").unwrap_or(0) || gt.btime != get("btime").unwrap_or(0) || gt.winc != get("winc").unwrap_or(0) || gt.binc != get("binc").unwrap_or(0) || gt.movestogo != get("movestogo").map(|v| v as u32) {
                    Some(format!("fields routed wrongly: wtime {} btime {} winc {} binc {} movestogo {:?}", gt.wtime, gt.btime, gt.winc, gt.binc, gt.movestogo))
                } else { check_slice(&gt, true).or_else(|| check_slice(&gt, false)) }
            }
        };
        if let Some(d) = bad { println!("CASE {{\"kind\":\"goline\",\"line\":\"{}\",\"observed\":\"{}\",\"input_id\":\"{}\"}}", jesc(&line), jesc(&d), jesc(&line)); return 1; }
    }
    if stats { println!("STATS go_lines={}", n); }
    println!("NONE {}", n); 0
}

fn get_str<'a>(json: &'a str, key: &str) -> Option<String> {
    let pat = format!("\"{}\":\"", key);
    let i = json.find(&pat)? + pat.len();
    let mut out = String::new(); let mut esc = false;
    for ch in json[i..].chars() { if esc { out.push(ch); esc = false; } else if ch == '\\' { esc = true; } else if ch == '"' { break; } else { out.push(ch); } }
    Some(out)
}

fn main() {
    let a: Vec<String> = std::env::args().collect();
    if a.len() < 3 { eprintln!("usage"); std::process::exit(2); }
    let prop = a[2].as_str();
    let code = match a[1].as_str() {
        "hunt" | "cross" => {
            let seed: u64 = a.get(3).and_then(|s| s.parse().ok()).unwrap_or(0);
            let budget: f64 = a.get(4).and_then(|s| s.parse().ok()).unwrap_or(20.0);
            let focus = a.get(5).map(|s| s.as_str()).unwrap_or("");
            match prop {
                "C10" => { let mut rc = 0; for c in 0..=6u8 { if let Some(d) = check_draw(c) { println!("CASE {{\"kind\":\"draw\",\"count\":\"{}\",\"observed\":\"{}\",\"input_id\":\"count={}\"}}", c, jesc(&d), c); rc = 1; break; } } if rc == 0 { rc = hunt_playout(seed, budget, a[1] == "cross"); } rc }
                "C04" => { let r = hunt_positions(prop, focus, seed, budget * 0.6, a[1] == "cross"); if r != 0 { r } else { hunt_playout(seed, budget * 0.4, a[1] == "cross") } }
                "C09" => { let r = hunt_slice(seed, budget * 0.5); if r != 0 { r } else { hunt_go_parse(seed, budget * 0.5, a[1] == "cross") } }
                "C15" => { let r = hunt_point(); if r != 0 { r } else { hunt_fen(seed, budget, a[1] == "cross") } }
                "C05" => { if let Some(d) = check_tables() { println!("CASE {{\"kind\":\"tables\",\"observed\":\"{}\",\"input_id\":\"tables\"}}", jesc(&d)); std::process::exit(1); } if a[1] == "cross" { println!("STATS table_constants=781 pairwise_distinct=true"); }
                    let r = hunt_positions(prop, focus, seed, budget * 0.7, a[1] == "cross"); if r != 0 { r } else { hunt_fen(seed, budget * 0.3, a[1] == "cross") } }
                _ => hunt_positions(prop, focus, seed, budget, a[1] == "cross"),
            }
        }
        "replay" => {
            let js = a[3].as_str();
            let kind = get_str(js, "kind").unwrap_or_default();
            let r = match kind.as_str() {
                "position" => { let h = ZobristHasher::create_zobrist_hasher(); let p = Pos::from_fen(&get_str(js, "fen").unwrap()).unwrap(); let mut r = check_pos(prop, "", &p, &h); if r.is_none() && prop == "C13" { r = check_capture_chain(&p, &h, 1); } r }
                "playout" => { let h = ZobristHasher::create_zobrist_hasher(); let start = Pos::from_fen(&get_str(js, "fen").unwrap()).unwrap(); let mut cur = start.clone(); let mut ms = vec![];
                    for t in get_str(js, "moves").unwrap().split_whitespace() { let m = parse_uci(&cur, t).unwrap(); cur = cur.apply(m); ms.push(m); }
                    check_playout(&start, get_str(js, "use_fen").unwrap() == "true", &ms, &h) }
                "tables" => check_tables(),
                "goline" => { std::panic::set_hook(Box::new(|_| {})); let line = get_str(js, "line").unwrap(); let refs: Vec<&str> = line.split(' ').collect();
                    match std::panic::catch_unwind(|| wr::uci::verif_parse_go_command(&refs)) { Err(_) => Some("panicked".into()), Ok(gt) => {
                        let val = |k: &str| refs.iter().position(|t| *t == k).and_then(|i| refs.get(i + 1)).and_then(|v| v.parse::<i128>().ok());
                        if gt.wtime != val("wtime").unwrap_or(0) || gt.btime != val("btime").unwrap_or(0) || gt.winc != val("winc").unwrap_or(0) || gt.binc != val("binc").unwrap_or(0) || gt.movestogo != val("movestogo").map(|v| v as u32) { Some("fields routed wrongly".into()) }
                        else { check_slice(&gt, true).or_else(|| check_slice(&gt, false)) } } } }
                "draw" => check_draw(get_str(js, "count").unwrap().parse().unwrap()),
                "go" => { let g = |k: &str| get_str(js, k).unwrap().parse::<i128>().unwrap(); let m = get_str(js, "movestogo").unwrap(); let mtg = if m == "None" { None } else { m.trim_start_matches("Some(").trim_end_matches(')').parse().ok() };
                    check_slice(&GameTime { wtime: g("wtime"), btime: g("btime"), winc: g("winc"), binc: g("binc"), movestogo: mtg }, js.contains("\"white\":true")) }
                "fen" => { std::panic::set_hook(Box::new(|_| {})); let text = get_str(js, "text").unwrap(); let wf = js.contains("\"wellformed\":true");
                    let stem: Vec<&str> = text.split(' ').collect();
                    let p = if wf { Pos::from_fen(&text) } else { None };
                    check_fen_text(&text, p.as_ref()) }
                "point" => { std::panic::set_hook(Box::new(|_| {})); let i = js.find("\"bytes\":[").unwrap() + 9; let j = js[i..].find(']').unwrap() + i; let bytes: Vec<u8> = js[i..j].split(',').filter_map(|x| x.trim().parse().ok()).collect(); check_point_text(&bytes) }
                _ => None,
            };
            match r { Some(d) => { println!("STILL-FAILS {}", d); 1 } None => { println!("PASSES"); 0 } }
        }
        _ => 2,
    };
    std::process::exit(code);
}
