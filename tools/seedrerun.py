#!/usr/bin/env python3
"""seedrerun.py [<seed-id> ...]: re-runs the recorded quick checks against every kept seeded change (patch applied to /repo,
checks run, /repo reverted) and refreshes meta.json['ran'].  The confirmation step (tests green, demo fails/passes) is
not repeated: it is recorded in meta.json from the run of tools/seedtest.py / tools/negtest.py."""
import json, os, subprocess, sys, time, glob
def sh(cmd, cwd=None):
    p = subprocess.run(cmd, shell=True, cwd=cwd, capture_output=True, text=True); return p.returncode, p.stdout + p.stderr
ids = sys.argv[1:] or sorted(os.path.basename(os.path.dirname(f)) for f in glob.glob('/verif/seeded/*/meta.json'))
for sid in ids:
    d = '/verif/seeded/' + sid
    m = json.load(open(d + '/meta.json'))
    props = [r['cmd'].split()[1] for r in m.get('ran', [])]
    if not props:
        continue
    rc, out = sh('git -C /repo status --porcelain'); assert out.strip() == '', out
    rc, out = sh('git -C /repo apply %s/patch.diff' % d); assert rc == 0, (sid, out)
    ran = []
    try:
        for p in props:
            t0 = time.time()
            rc, out = sh('./check %s --tier quick' % p, cwd='/verif')
            lines = [l for l in out.splitlines() if l.startswith(('VIOLATION', 'UNDECIDED property', 'FAILED-OBLIGATION', '== ', 'KNOWN'))]
            e = {'cmd': './check %s --tier quick' % p, 'exit': rc, 'wall_s': round(time.time() - t0), 'lines': [l[:400] for l in lines[-12:]]}
            if sid.startswith('N'):
                e['false_alarm'] = any(l.startswith('VIOLATION') for l in lines)
            ran.append(e)
            print(sid, p, 'exit', rc, '|', (lines[-1] if lines else '')[:160], flush=True)
    finally:
        sh('git -C /repo checkout -- .')
    m['ran'] = ran
    json.dump(m, open(d + '/meta.json', 'w'), indent=1)
print('ALLDONE')
