#!/usr/bin/env python3
"""Prints the markdown table of DESIGN.md section 12 from /verif/seeded/*/meta.json."""
import json, glob, os, re
rows = []
for f in sorted(glob.glob(os.path.join(os.path.dirname(os.path.dirname(os.path.abspath(__file__))), 'seeded', '*', 'meta.json'))):
    m = json.load(open(f))
    res = []
    for r in m.get('ran', []):
        prop = r['cmd'].split()[1]
        lines = r.get('lines', [])
        viol = [l for l in lines if l.startswith('VIOLATION')]
        und = [l for l in lines if l.startswith('UNDECIDED property')]
        fo = [l for l in lines if l.startswith('FAILED-OBLIGATION')]
        how = ''
        if viol:
            if fo and 'verifier undecided' in fo[0]:
                how = 'caught: verifier undecided, native replay of a failing input'
            elif fo and fo[0].startswith('FAILED-OBLIGATION bounded/'):
                how = 'caught by the bounded native stand-in'
            elif fo and 'kani/' in fo[0]:
                how = 'caught: Kani ' + fo[0].split('kani/')[1].split(':')[0]
            else:
                unit = fo[0].split(' ')[1].rstrip(':') if fo else '?'
                how = 'caught: Verus obligation in ' + unit
            if any('no-failing-input-found' in v for v in viol) and not any('no-failing-input-found' not in v for v in viol):
                how += ' (no failing input found)'
            else:
                how += ' + replayed input'
        elif und:
            how = 'UNDECIDED (exit 2)' + (', no alarm' if m['id'].startswith('N') else '')
        elif m['id'].startswith('N'):
            how = 'verified, exit 0 (no alarm)'
        else:
            how = 'not reported (exit %s)' % r.get('exit')
        res.append('%s: %s' % (prop, how))
    esc = lambda t: t.replace('||', 'or').replace('|', '/')
    rows.append((m['id'], esc(m.get('what', '')), esc(m.get('needs', '')), ('n/a' if m['id'].startswith('N') else ('yes' if m.get('confirmed') else 'NO')), '; '.join(res)))
print('| seed | change | needs, to manifest | confirmed | quick check result |')
print('|------|--------|--------------------|-----------|--------------------|')
for r in rows:
    print('| %s | %s | %s | %s | %s |' % r)
