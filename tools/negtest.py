#!/usr/bin/env python3
"""negtest.py <id> <refactor.diff> <PROP> [<PROP>...]: harmless refactoring (negative control): confirms 107 tests green
in a scratch worktree, applies it to /repo, runs the quick checks, reverts; a VIOLATION line is a false alarm."""
import json, os, shutil, subprocess, sys, time
sid, patch = sys.argv[1:3]; props = sys.argv[3:]
def sh(cmd, cwd=None):
    p = subprocess.run(cmd, shell=True, cwd=cwd, capture_output=True, text=True); return p.returncode, p.stdout + p.stderr
WT = '/tmp/negchk_' + sid
sh('git -C /repo worktree remove --force %s' % WT)
rc, out = sh('git -C /repo worktree add -q --detach %s HEAD && cp /repo/Cargo.lock %s/' % (WT, WT)); assert rc == 0, out
try:
    rc, out = sh('git apply %s' % patch, cwd=WT); assert rc == 0, out
    rc, out = sh('cargo test --offline 2>&1 | grep -E "^test result"', cwd=WT)
    tests = out.strip()
finally:
    sh('git -C /repo worktree remove --force %s' % WT)
meta = {'id': sid, 'kind': 'negative control (behaviour-preserving refactoring)', 'tests_with_change': tests, 'ran': []}
rc, out = sh('git -C /repo status --porcelain'); assert out.strip() == '', out
rc, out = sh('git -C /repo apply %s' % patch); assert rc == 0, out
try:
    for p in props:
        t0 = time.time()
        rc, out = sh('./check %s --tier quick' % p, cwd='/verif')
        lines = [l for l in out.splitlines() if l.startswith(('VIOLATION', 'UNDECIDED property', '== '))]
        print(sid, p, 'exit', rc, '|', ' | '.join(l[:150] for l in lines[-2:]))
        meta['ran'].append({'cmd': './check %s --tier quick' % p, 'exit': rc, 'wall_s': round(time.time() - t0), 'lines': [l[:300] for l in lines[-3:]], 'false_alarm': any(l.startswith('VIOLATION') for l in lines)})
finally:
    sh('git -C /repo checkout -- .')
d = '/verif/seeded/' + sid
os.makedirs(d, exist_ok=True)
shutil.copy(patch, d + '/patch.diff')
old = json.load(open(d + '/meta.json')) if os.path.exists(d + '/meta.json') else {}
old.update(meta)
json.dump(old, open(d + '/meta.json', 'w'), indent=1)
