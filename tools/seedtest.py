#!/usr/bin/env python3
"""seedtest.py <seed-id> <patch.diff> <demo.rs|-> <demo test filter> <PROP> [<PROP>...]
1. confirms in a scratch worktree: patch applies, 107 tests green with it, demo fails with it and passes without it
2. applies the patch to /repo, runs ./check <PROP> --tier quick for each property, reverts /repo
Writes /verif/seeded/<seed-id>/{patch.diff,demo.rs,meta.json}."""
import json, os, shutil, subprocess, sys, time
sid, patch, demo, filt = sys.argv[1:5]
props = sys.argv[5:]
WT = '/tmp/seedchk_' + sid
def sh(cmd, cwd=None, timeout=3600):
    p = subprocess.run(cmd, shell=True, cwd=cwd, capture_output=True, text=True, timeout=timeout)
    return p.returncode, p.stdout + p.stderr
meta = {'id': sid, 'breaks': props, 'ran': []}
sh('git -C /repo worktree remove --force %s' % WT)
rc, out = sh('git -C /repo worktree add -q --detach %s HEAD && cp /repo/Cargo.lock %s/' % (WT, WT)); assert rc == 0, out
try:
    rc, out = sh('git apply %s' % patch, cwd=WT); assert rc == 0, 'patch does not apply: ' + out
    rc, out = sh('cargo test --offline 2>&1 | grep -E "^test result"', cwd=WT)
    meta['tests_with_change'] = out.strip(); print('tests with change:', out.strip())
    ok_tests = '107 passed; 0 failed' in out
    demo_with = demo_without = None
    if demo != '-':
        target = 'src/move_generation.rs'
        first = open(demo).read()
        for cand in ('board.rs', 'evaluation.rs', 'draw_table.rs', 'uci.rs', 'zobrist.rs', 'time_control.rs', 'move_generation.rs', 'engine.rs'):
            if ('append to src/' + cand) in first or ('src/' + cand) in first.split('\n')[0]:
                target = 'src/' + cand
        if len(sys.argv) and os.environ.get('DEMO_TARGET'):
            target = os.environ['DEMO_TARGET']
        def wire():
            mode = os.environ.get('DEMO_MODE', 'append')
            if mode == 'append':
                sh('cat %s >> %s' % (demo, target), cwd=WT)
            elif mode == 'wire':       # demo module under demo/, wired in by a patch to src/main.rs
                sh('mkdir -p demo && cp %s demo/' % demo, cwd=WT)
                rc_, out_ = sh('git apply %s' % os.environ['DEMO_WIRE'], cwd=WT); assert rc_ == 0, out_
            elif mode == 'patch':      # the demo is itself a patch (appends a #[cfg(test)] module)
                rc_, out_ = sh('git apply %s' % demo, cwd=WT); assert rc_ == 0, out_
            elif mode == 'modfile':    # demo copied to src/<name>.rs and declared in main.rs
                name = os.environ['DEMO_MOD']
                sh('cp %s src/%s.rs && echo "#[cfg(test)] mod %s;" >> src/main.rs' % (demo, name, name), cwd=WT)
        wire()
        rc, out = sh('cargo test --offline %s 2>&1 | grep -E "^test result|panicked|error(\\[|:)" | head -8' % filt, cwd=WT)
        demo_with = out.strip(); print('demo with change:', demo_with)
        sh('git checkout -- src && git clean -fdq src demo', cwd=WT)
        wire()
        rc, out = sh('cargo test --offline %s 2>&1 | grep -E "^test result|panicked|error(\\[|:)" | head -8' % filt, cwd=WT)
        demo_without = out.strip(); print('demo without change:', demo_without)
        meta['demo_target'] = target
    meta['demo_with_change'] = demo_with; meta['demo_without_change'] = demo_without
    meta['confirmed'] = bool(ok_tests and (demo == '-' or ('FAILED' in (demo_with or '') or 'failed' in (demo_with or '')) and ' 0 failed' in (demo_without or '') and 'error' not in (demo_without or '')))
finally:
    sh('git -C /repo worktree remove --force %s' % WT)
print('confirmed:', meta['confirmed'])
# run the checks against /repo with the patch applied
rc, out = sh('git -C /repo status --porcelain'); assert out.strip() == '', '/repo not clean: ' + out
rc, out = sh('git -C /repo apply %s' % patch); assert rc == 0, out
try:
    for p in props:
        t0 = time.time()
        rc, out = sh('./check %s --tier quick' % p, cwd='/verif')
        lines = [l for l in out.splitlines() if l.startswith(('VIOLATION', 'UNDECIDED', 'FAILED-OBLIGATION', '== ', 'KNOWN'))]
        print('\n'.join(lines[-12:]))
        meta['ran'].append({'cmd': './check %s --tier quick' % p, 'exit': rc, 'wall_s': round(time.time() - t0), 'lines': lines[-12:]})
finally:
    sh('git -C /repo checkout -- .')
d = '/verif/seeded/' + sid
os.makedirs(d, exist_ok=True)
shutil.copy(patch, d + '/patch.diff')
if demo != '-':
    shutil.copy(demo, d + ('/demo.diff' if demo.endswith('.diff') else '/demo.rs'))
old = {}
if os.path.exists(d + '/meta.json'):
    old = json.load(open(d + '/meta.json'))
old.update(meta)
json.dump(old, open(d + '/meta.json', 'w'), indent=1)
