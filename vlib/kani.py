"""Kani pipeline (DESIGN 3.2): scratch crate = copy of /repo/src with cfg(kani) harness modules appended and contract
attributes inserted above the contracted function; nothing deleted or rewritten."""
import os, re, shutil, subprocess, time
from concurrent.futures import ThreadPoolExecutor
from .driver import VERIF, REPO, log
from .extract import Src, LostAnchor, sha


def build_crate(work, appends, contracts):
    """appends: {file.rs: harness file}, contracts: [(file.rs, fn name, impl regex or None, attr file)]"""
    d = os.path.join(work, 'kanicrate')
    shutil.rmtree(d, ignore_errors=True)
    os.makedirs(os.path.join(d, 'src'))
    os.makedirs(os.path.join(d, '.cargo'))
    info = {}
    for f in os.listdir(os.path.join(REPO, 'src')):
        if not f.endswith('.rs') or f == 'main.rs':
            continue
        p = os.path.join(REPO, 'src', f)
        s = open(p).read()
        for (cf, fn, impl, attr) in contracts:
            if cf != f:
                continue
            src = Src(p)
            if impl:
                imp = src.find_impl(impl)
                a, ob, e = src.find_fn(fn, within=(imp[1], imp[2]))
            else:
                a, ob, e = src.find_fn(fn)
            info[fn] = {'fn': fn, 'where': 'src/%s:%d' % (f, src.line_of(ob)), 'sha256': sha(src.s[a:e])[:16], 'has_contract': True}
            s = s[:a] + open(os.path.join(VERIF, 'kani', attr)).read() + s[a:]
        if f in appends:
            s += open(os.path.join(VERIF, 'kani', appends[f])).read()
        open(os.path.join(d, 'src', f), 'w').write(s)
    open(os.path.join(d, 'src', 'lib.rs'), 'w').write(open(os.path.join(VERIF, 'replay', 'lib.rs')).read())
    open(os.path.join(d, 'Cargo.toml'), 'w').write('[package]\nname = "wk"\nversion = "0.1.0"\nedition = "2021"\nauthors = ["verif"]\n\n[dependencies]\ncolored = "2.0.0"\nsimple-logging = "2.0.2"\nlog = "0.4"\nrand_chacha = "0.3.1"\n\n[lib]\npath = "src/lib.rs"\n\n[lints.rust]\nunexpected_cfgs = { level = "allow", check-cfg = [\'cfg(kani)\'] }\n')
    open(os.path.join(d, '.cargo', 'config.toml'), 'w').write('[net]\noffline = true\n')
    for lock in (os.path.join(REPO, 'Cargo.lock'), '/repo/Cargo.lock'):
        if os.path.exists(lock):
            shutil.copy(lock, os.path.join(d, 'Cargo.lock'))
            break
    return d, info


def run_harness(d, harness, timeout, extra=()):
    env = dict(os.environ); env['CARGO_NET_OFFLINE'] = 'true'
    env['CARGO_TARGET_DIR'] = os.path.join(d, 'target_' + harness)
    cmd = ['cargo', 'kani', '-Z', 'function-contracts', '-Z', 'stubbing', '--harness', harness] + list(extra)
    t0 = time.time()
    import signal
    # own process group: on timeout the whole tree (cargo-kani, kani-driver, cbmc, SAT solver) is killed, nothing is orphaned
    proc = subprocess.Popen(cmd, cwd=d, stdout=subprocess.PIPE, stderr=subprocess.STDOUT, text=True, env=env, start_new_session=True)
    try:
        out, _ = proc.communicate(timeout=timeout)
        rc = proc.returncode
    except subprocess.TimeoutExpired:
        try:
            os.killpg(proc.pid, signal.SIGKILL)
        except Exception:
            pass
        try:
            out, _ = proc.communicate(timeout=30)
        except Exception:
            out = ''
        return {'harness': harness, 'status': 'timeout', 'wall_s': round(time.time() - t0, 1), 'cmd': ' '.join(cmd), 'tail': (out or '')[-800:]}
    wall = round(time.time() - t0, 1)
    res = {'harness': harness, 'wall_s': wall, 'cmd': ' '.join(cmd)}
    m = re.search(r'VERIFICATION:- (SUCCESSFUL|FAILED)', out)
    failed = re.findall(r'Failed Checks: (.*)', out)
    res['failed_checks'] = failed[:8]
    mt = re.search(r'Verification Time: ([0-9.]+)s', out)
    res['solver_ms'] = round(float(mt.group(1)) * 1000) if mt else None
    covers = re.findall(r'(\d+) of (\d+) cover properties satisfied', out)
    if covers:
        res['covers'] = '%s/%s' % covers[-1]
    nchk = re.search(r'\*\* (\d+) of (\d+) failed', out)
    if nchk:
        res['checks'] = int(nchk.group(2)); res['checks_failed'] = int(nchk.group(1))
    if m is None:
        res['status'] = 'error'
        res['tail'] = out[-1500:]
    elif m.group(1) == 'SUCCESSFUL':
        res['status'] = 'ok'
        if covers and covers[-1][0] != covers[-1][1]:
            res['status'] = 'cover-unsatisfied'
    else:
        res['status'] = 'fail'
        res['tail'] = out[-2500:]
    return res


def make_engine(appends, contracts, harnesses):
    """harnesses: [{'name', 'timeout', 'tier', 'bounded': str or None, 'what': str}]"""
    def run(prop, tier, seed, jobs, work):
        out = {'units': [], 'failures': [], 'undecided': [], 'bounded': [], 'samples': [], 'cmds': [], 'fns': {}}
        try:
            d, info = build_crate(work, appends, contracts)
        except LostAnchor as ex:
            out['undecided'].append('kani: %s' % ex)
            return out
        out['fns'] = info
        todo = [h for h in harnesses if not (h.get('tier') == 'thorough' and tier != 'thorough')]
        log('-- kani: %d harness(es)' % len(todo))
        with ThreadPoolExecutor(max_workers=max(1, min(jobs, 8))) as ex:
            results = list(ex.map(lambda h: run_harness(d, h['name'], h['timeout']), todo))
        for h, r in zip(todo, results):
            log('  kani %-45s %-8s %6.1fs' % (h['name'], r['status'], r['wall_s']))
            unit = {'bundle': 'kani', 'unit': h['name'], 'status': 'ok' if r['status'] == 'ok' else r['status'], 'wall_s': r['wall_s'], 'solver_ms': r.get('solver_ms'),
                    'backend': 'kani 0.68 + cbmc 6.11 (cadical)', 'checks': r.get('checks'), 'what': h['what']}
            if not out['cmds']:
                out['cmds'].append(r['cmd'])
            if h.get('bounded'):
                unit['bounded'] = h['bounded']
                out['bounded'].append({'harness': h['name'], 'bound': h['bounded'], 'status': r['status'], 'wall_s': r['wall_s'], 'what': h['what']})
                if r['status'] == 'fail':
                    out['failures'].append({'bundle': 'kani', 'unit': h['name'], 'obligation': 'kani/%s (bounded: %s): %s' % (h['name'], h['bounded'], '; '.join(r.get('failed_checks') or ['failed'])[:300]), 'detail': None, 'rendered': r.get('tail', '')})
                # a bounded add-on that times out is recorded, never counted, never an alarm
            else:
                if r['status'] == 'fail':
                    out['failures'].append({'bundle': 'kani', 'unit': h['name'], 'obligation': 'kani/%s: %s' % (h['name'], '; '.join(r.get('failed_checks') or ['failed'])[:300]), 'detail': None, 'rendered': r.get('tail', '')})
                elif r['status'] != 'ok':
                    out['undecided'].append('kani/%s: %s %s' % (h['name'], r['status'], r.get('tail', '')[-300:]))
            out['units'].append(unit)
            out['samples'].append('kani %s: %s -- %s' % (h['name'], h['what'], r['status']))
        return out
    return run
