"""run_property: the whole check for one property."""
import json, os, re, subprocess, sys, time, hashlib

from . import driver as D
from .driver import log, Undecided, BundleRun, VERIF, REPO
from . import verus as V

BASELINE = os.path.join(VERIF, 'contracts', 'baseline.json')


def _load_baseline():
    if os.path.exists(BASELINE):
        return json.load(open(BASELINE))
    return {}


def _git_head(path):
    try:
        return subprocess.run(['git', '-C', path, 'rev-parse', 'HEAD'], capture_output=True, text=True).stdout.strip()
    except Exception:
        return ''


def _tool_versions():
    out = {}
    try:
        out['verus'] = json.loads(subprocess.run(['verus', '--version', '--output-json'], capture_output=True, text=True).stdout)['verus']['version']
    except Exception:
        try:
            out['verus'] = subprocess.run(['verus', '--version'], capture_output=True, text=True).stdout.split('\n')[1].strip()
        except Exception:
            out['verus'] = 'unknown'
    return out


def obligation_name(bundle, unit, desc):
    """stable, human-readable identity of a failed obligation"""
    cl = None
    for w in desc['where']:
        if w['clause'] is not None:
            # prefer the span labelled as the failed clause
            if cl is None or (w.get('label') or '').startswith('failed'):
                cl = w['clause']
    if cl and cl['kind'] == 'hint':
        snip = ''
        for w in desc['where']:
            if w.get('primary'):
                snip = w.get('text') or ''
        tags = ('[' + ','.join(cl['tags']) + '] ') if cl['tags'] else ''
        return '%s/%s: %s -- %s`%s` (proof hint #%d)' % (bundle, unit, desc['message'], tags, snip[:140], cl['id'])
    if cl:
        tags = ('[' + ','.join(cl['tags']) + '] ') if cl['tags'] else ''
        return '%s/%s: %s -- %s %s%s' % (bundle, unit, desc['message'], cl['kind'], tags, cl['text'][:160])
    snip = ''
    for w in desc['where']:
        if w.get('primary'):
            snip = w.get('text') or ''
    return '%s/%s: %s -- at `%s`' % (bundle, unit, desc['message'], snip[:120])


def failed_clause(desc):
    cl = None
    for w in desc['where']:
        if w['clause'] is not None:
            if cl is None or (w.get('label') or '').startswith('failed'):
                cl = w['clause']
    return cl


def is_own_failure(prop, desc, unit_own):
    """A failed obligation is a violation candidate of `prop` only if it is one of prop's OWN obligations: a clause tagged or
    attributed to prop, or an untagged clause of a unit whose contract belongs to prop.  Anything else that fails is a
    *support* obligation: the proof of prop does not go through (undecided), which is not evidence that prop is violated.
    Failures outside every clause (overflow, index, panic reachability in copied code) and failed preconditions of callees
    are support failures too; the native hunt that follows treats a panic of the real code as a failing input."""
    cl = failed_clause(desc)
    if cl is None or 'precondition' in desc['message']:
        # overflow / index / unreachable-panic obligations in copied code and callee preconditions at call sites: the proof
        # does not go through; whether the real code misbehaves (wrong result or panic) is decided by native replay
        return False
    if cl.get('attr') is not None:
        return prop in cl['attr']
    if cl['tags']:
        return prop in cl['tags'] or 'CANARY' in cl['tags']
    return prop in unit_own.get(cl['fn'], [prop])


def run_property(prop, cfg, tier, seed, jobs, work, rebaseline=False, only=None):
    t0 = time.time()
    log('== check %s tier=%s seed=%d repo=%s' % (prop, tier, seed, REPO))
    baseline = _load_baseline()
    base_prop = baseline.get(prop, {})
    new_base = {}
    units_report = []      # per unit
    failures = []          # definite failed obligations
    undecided = []         # reasons
    fn_under_contract = {}
    rewrites = []
    assumptions = {}
    canary_report = []
    samples = []
    checker_cmds = []
    n_clauses = 0
    bounded = []
    stability = []
    support_failed = []
    extra_cov = {}

    # ---------------- Verus bundles ----------------
    from .extract import LostAnchor
    for b in cfg.get('verus', []):
        if b.get('tier') == 'thorough' and tier != 'thorough':
            continue
        profile = b.get('profile', [prop])
        try:
            br = BundleRun(b['name'], b['build'], profile, b, work)
            units = br.unit_names(prop)
        except (LostAnchor, Undecided) as ex:
            if rebaseline or only:
                raise
            undecided.append('%s: %s' % (b['name'], ex))
            continue
        if b.get('units_filter'):
            units = [u for u in units if b['units_filter'](u)]
        key = b['name']
        new_base[key] = sorted(units)
        # signature fingerprints of every function copied into this bundle (global section of the baseline)
        sigs = baseline.setdefault('_signatures', {})
        for x in br.g.units:
            if rebaseline:
                sigs[x['fn']] = x['sig']
            elif x['fn'] in sigs and sigs[x['fn']] != x['sig'] and not only:
                undecided.append('%s: signature of %s changed (%r, contracts were written for %r): the contracts do not apply' % (key, x['fn'], x['sig'][:160], sigs[x['fn']][:160]))
        if any(u_.startswith(key + ': signature of') for u_ in undecided):
            continue
        if only:
            units = [u for u in units if u in only.split(',')]
        elif not rebaseline:
            if key not in base_prop:
                raise Undecided('no committed baseline unit list for %s/%s (run --rebaseline)' % (prop, key))
            missing = sorted(set(base_prop[key]) - set(units))
            extra = sorted(set(units) - set(base_prop[key]))
            if missing or extra:
                raise Undecided('unit list of bundle %s differs from the committed baseline (missing %s, extra %s): the contracts no longer match the extracted code' % (key, missing, extra))
        if not units and only:
            continue
        if not units:
            raise Undecided('bundle %s produced zero obligations' % key)
        for a in D.scan_assumptions(br.text):
            assumptions['%s:%s' % (a['what'], a['name'])] = a
        allowed = set(cfg.get('whitelist', ()))
        bad = [k for k in assumptions if k not in allowed and not any(k.startswith(w.rstrip('*')) for w in allowed if w.endswith('*'))]
        if bad:
            raise Undecided('assumption scan: constructs outside the whitelist: %s' % bad)
        log('-- bundle %s: %d units, %d lines generated, profile=%s' % (key, len(units), br.text.count('\n'), ','.join(profile) if profile else 'all'))
        # the deciding run is deterministic: VERIF_SEED seeds the hunter, the bounded stand-ins and the stability runs only
        res = br.verify(units, jobs, None)
        for u in br.g.units:
            if not u['stubbed']:
                fn_under_contract[u['fn']] = {'fn': u['fn'], 'where': '%s:%d' % (u['file'], u['line']), 'sha256': u['sha256'][:16], 'has_contract': u['has_contract']}
        rewrites += br.g.rewrites
        n_clauses += len(br.g.clauses.items)
        for u in units:
            r = res[u]
            rec = {'bundle': key, 'unit': u, 'status': r['status'], 'wall_s': r['wall_s'], 'solver_ms': r.get('solver_ms'), 'rlimit_used': r.get('rlimit_used'), 'backend': 'verus %s + bundled z3' % r.get('verus_version', '?')}
            if r.get('retried_from'):
                rec['retried_from'] = r['retried_from']
            units_report.append(rec)
            if not checker_cmds:
                checker_cmds.append(r.get('cmd', ''))
            if r['status'] in ('ok', 'nothing'):
                continue
            if r['status'] == 'fail':
                unit_own = {x['fn']: x.get('own', x['props']) for x in br.g.units}
                for e in r['errors']:
                    if V.RLIMIT_PAT.search(e['message']):
                        continue
                    d = br.describe_error(e)
                    if is_own_failure(prop, d, unit_own):
                        failures.append({'bundle': key, 'unit': u, 'obligation': obligation_name(key, u, d), 'detail': d, 'rendered': e.get('rendered', '')})
                    else:
                        support_failed.append(obligation_name(key, u, d))
                        undecided.append('%s/%s: a support obligation of the proof failed (not one of %s\'s own obligations): %s' % (key, u, prop, obligation_name(key, u, d)[:300]))
            else:
                undecided.append('%s/%s: %s %s' % (key, u, r['status'], (r.get('stderr_tail') or (r['errors'][0]['message'] if r.get('errors') else ''))[-400:]))
        # canaries: the same file with `ensures false` added to each contracted exec function must FAIL there
        ctargets = [u['fn'] for u in br.g.units if u['has_contract'] and not u['stubbed'] and u['fn'] in units]
        if tier == 'quick':
            cq = b.get('canary_quick')
            ctargets = [c for c in ctargets if (cq is None or c in cq)]
        if ctargets and not only and not failures and not undecided:
            cres = {}
            from concurrent.futures import ThreadPoolExecutor
            def one_canary(c):
                cb = dict(b); cb['_canary_targets'] = {c}
                cr = BundleRun(b['name'] + '_canary_' + re.sub(r'\W', '_', c), b['build'], profile, cb, work, canary=True)
                return c, V.run_unit(cr.path, work, c, b.get('canary_rlimit', 10), seed=None)
            with ThreadPoolExecutor(max_workers=jobs) as ex:
                for c, r_ in ex.map(one_canary, ctargets):
                    cres[c] = r_
            for c in ctargets:
                st = cres[c]['status']
                good = st in ('fail', 'rlimit', 'timeout')
                canary_report.append({'unit': c, 'status': st, 'failed_as_expected': good})
                if not good:
                    undecided.append('canary: %s verifies `ensures false` (%s): vacuous precondition or assumption leak' % (c, st))
            log('-- canaries %s: %d/%d failed as expected' % (key, sum(1 for c in canary_report if c['failed_as_expected']), len(canary_report)))
        # stability (thorough): the heavy units again with two other solver seeds at twice the rlimit; a differing outcome is
        # recorded as instability (never as a violation)
        if tier == 'thorough' and not only and not failures and not undecided:
            heavy = [u for u in units if u in b.get('rlimits', {})]
            jobs_ = [(u, sd) for u in heavy for sd in (seed + 101, seed + 202)]
            def one_stab(js):
                u, sd = js
                return u, sd, V.run_unit(br.path, work, u, b['rlimits'][u] * 2, seed=sd)
            from concurrent.futures import ThreadPoolExecutor as _TPE2
            with _TPE2(max_workers=jobs) as ex:
                for u, sd, r_ in ex.map(one_stab, jobs_):
                    stability.append({'bundle': key, 'unit': u, 'seed': sd, 'status': r_['status'], 'wall_s': r_['wall_s']})
            log('-- stability %s: %d extra runs, %d not ok' % (key, len(jobs_), sum(1 for s_ in stability if s_['status'] != 'ok')))
        # lemma canaries (thorough): `false` added to the ensures of each proof lemma that has a precondition must fail
        if tier == 'thorough' and not only and not failures and not undecided:
            lem = [u for u in units if u in D.proof_fns_with_requires(br.text)]
            def one_lemma_canary(name):
                txt = D.lemma_canary_text(br.text, name)
                if txt is None:
                    return name, None
                pth = os.path.join(work, '%s__lemcanary_%s.rs' % (key, name))
                open(pth, 'w').write(txt)
                return name, V.run_unit(pth, work, name, 10, seed=None)
            from concurrent.futures import ThreadPoolExecutor as _TPE
            with _TPE(max_workers=jobs) as ex:
                for name, r_ in ex.map(one_lemma_canary, lem):
                    if r_ is None:
                        continue
                    good = r_['status'] in ('fail', 'rlimit', 'timeout')
                    canary_report.append({'unit': name, 'status': r_['status'], 'failed_as_expected': good, 'kind': 'lemma'})
                    if not good:
                        undecided.append('canary: lemma %s proves `false` (%s): contradictory precondition' % (name, r_['status']))
            log('-- lemma canaries %s: %d checked' % (key, len(lem)))
        # samples of actual obligations
        cand = [cl for cl in br.g.clauses.items if cl['kind'] in ('ensures', 'invariant') and res.get(cl['fn'], {}).get('status')]
        cand.sort(key=lambda cl: (0 if prop in cl['tags'] else 1, 0 if cl['kind'] == 'ensures' else 1, -len(cl['text'])))
        for cl in cand[:8]:
            st = res[cl['fn']]['status']
            samples.append('%s: %s %s%s -- %s (%.1fs)' % (cl['fn'], cl['kind'], ('[' + ','.join(cl['tags']) + '] ') if cl['tags'] else '', cl['text'][:220], 'discharged' if st == 'ok' else st, res[cl['fn']]['wall_s']))

    # ---------------- other engines (kani, native exhaustive checks) ----------------
    for eng in cfg.get('engines', []):
        if eng.get('tier') == 'thorough' and tier != 'thorough':
            continue
        out = eng['run'](prop, tier, seed, jobs, work)
        units_report += out.get('units', [])
        failures += out.get('failures', [])
        undecided += out.get('undecided', [])
        bounded += out.get('bounded', [])
        samples += out.get('samples', [])
        checker_cmds += out.get('cmds', [])
        for k, v in out.get('fns', {}).items():
            fn_under_contract[k] = v
        for k, v in out.get('coverage', {}).items():
            extra_cov[k] = v

    if rebaseline:
        baseline[prop] = new_base
        json.dump(baseline, open(BASELINE, 'w'), indent=1, sort_keys=True)
        log('baseline rewritten for %s' % prop)

    deductive = [u for u in units_report if not u.get('bounded')]
    n_obl = len(deductive)
    n_ok = sum(1 for u in deductive if u['status'] in ('ok', 'nothing'))

    # ---------------- failures -> replay ----------------
    violations = []
    known_lines = []
    if failures:
        from . import hunter
        known = D.load_known_findings()
        # one VIOLATION per distinct obligation; hunter bound to the failed obligation
        seen = set()
        _UNSET = object()
        hunted = _UNSET
        os.makedirs(os.path.join(VERIF, 'replays'), exist_ok=True)
        for f in failures:
            if f['obligation'] in seen:
                continue
            seen.add(f['obligation'])
            case = f.get('case')
            if case is None and not only:
                if hunted is _UNSET:
                    try:
                        hunted = hunter.hunt(prop, f, tier, seed, work)
                    except Exception as ex:
                        hunted = None
                        log('hunter error: %r' % (ex,))
                case = hunted
            kf = None
            for k in known:
                if k.get('property') != prop:
                    continue
                same_input = k.get('input') is not None and case is not None and k.get('input') == case.get('input_id')
                same_unit = bool(k.get('unit')) and k['unit'] in f['obligation']
                # a listed finding is identified by its failing input (and unit); a different input or another unit is still reported
                if same_input or (same_unit and (k.get('input') is None or case is None)):
                    kf = k
            if kf is not None:
                known_lines.append('KNOWN-FINDING: property=%s %s' % (prop, kf['raw'].split(' ', 2)[-1]))
                continue
            h = hashlib.sha256(f['obligation'].encode()).hexdigest()[:10]
            rp = os.path.join(VERIF, 'replays', '%s-%s.json' % (prop, h))
            json.dump({'property': prop, 'obligation': f['obligation'], 'unit': f['unit'], 'bundle': f['bundle'],
                       'verifier_output': f.get('rendered', ''), 'verifier_detail': f.get('detail'),
                       'case': case, 'repo_head': _git_head(REPO)}, open(rp, 'w'), indent=1)
            violations.append((rp, case is not None, f['obligation']))

    wall = time.time() - t0
    ev = {
        'property_id': prop, 'tier': tier, 'seed': seed, 'level': 'proof', 'wall_s': round(wall, 1),
        'violations': len(violations),
        'coverage': {
            'obligations': max(n_obl, 0), 'discharged': n_ok,
            'checker_cmd': checker_cmds[0] if checker_cmds else '',
            'trusted_base': cfg.get('trusted_base', []),
            'explanation': cfg.get('explanation', ''),
            'obligation_unit': 'one obligation = one verification unit (exec function with its contract and loop invariants, proof lemma, or recursive spec function) discharged in its own verifier process; clauses counts the requires/ensures/invariant/hint clauses inserted into those units',
            'clauses': n_clauses,
            'functions_under_contract': sorted(fn_under_contract.values(), key=lambda x: x['fn']),
            'units': units_report,
            'solver_ms_total': round(sum((u.get('solver_ms') or 0) for u in units_report), 1),
            'rewrites_applied': rewrites,
            'dropped': cfg.get('dropped', []),
            'assumptions_scan': sorted(assumptions.keys()),
            'canaries': canary_report,
            'canaries_failed_as_expected': sum(1 for c in canary_report if c['failed_as_expected']),
            'bounded': bounded,
            'stability_runs': stability,
            'not_decided': cfg.get('not_decided', []),
            'samples': samples[:12] or ['(no sample)'],
            'failed_obligations': [f['obligation'] for f in failures],
            'failed_support_obligations': support_failed,
            'undecided': undecided,
            'known_findings_reported': known_lines,
            'repo_head': _git_head(REPO),
            'tools': _tool_versions(),
        },
        'assumptions': cfg.get('assumptions', []),
    }
    ev['coverage'].update(extra_cov)
    if not only:
        D.write_evidence(prop, ev)
    log('== %s: %d/%d obligations discharged, %d failed obligation(s), %d undecided, %.1fs' % (prop, n_ok, n_obl, len(failures), len(undecided), wall))
    for l in sorted(set(known_lines)):
        print(l)
    if undecided and not failures and not only and cfg.get('hunt_when_undecided', True):
        # The proof does not apply (restructured code, front-end rejection, rlimit).  That alone is never an alarm; but a
        # concrete input on which the REAL code disagrees with the rules-level oracle is a violation by replay.
        from . import hunter
        case = None
        try:
            case = hunter.hunt(prop, None, tier, seed, work)
        except Exception as ex:
            log('hunter error: %r' % (ex,))
        if case is not None:
            os.makedirs(os.path.join(VERIF, 'replays'), exist_ok=True)
            h = hashlib.sha256(('undecided' + json.dumps(case, sort_keys=True)).encode()).hexdigest()[:10]
            rp = os.path.join(VERIF, 'replays', '%s-%s.json' % (prop, h))
            obl = 'verifier undecided (%s); violation established by native replay of a failing input: %s' % (' '.join(undecided[0].split())[:200], (case.get('observed') or '')[:200])
            json.dump({'property': prop, 'obligation': obl, 'unit': None, 'bundle': None, 'verifier_output': '\n'.join(undecided)[:3000], 'case': case, 'repo_head': _git_head(REPO)}, open(rp, 'w'), indent=1)
            ev['violations'] = 1
            ev['coverage']['failed_obligations'] = [obl]
            D.write_evidence(prop, ev)
            log('FAILED-OBLIGATION ' + obl)
            print('VIOLATION property=%s replay=%s' % (prop, rp))
            return 1
    if undecided:
        for u in undecided[:10]:
            log('UNDECIDED-DETAIL ' + ' '.join(u.split())[:500])
    if undecided and not violations:
        print('UNDECIDED property=%s reason=%s' % (prop, ' '.join(undecided[0].split())[:300]))
        return 2
    if violations:
        if os.environ.get('VERIF_VERBOSE'):
            for f in failures:
                log(f.get('rendered', ''))
        for rp, found, obl in violations:
            log('FAILED-OBLIGATION ' + obl)
            print('VIOLATION property=%s replay=%s%s' % (prop, rp, '' if found else ' no-failing-input-found'))
        return 1
    return 0


def replay(prop, path, work):
    from . import hunter
    rec = json.load(open(path))
    case = rec.get('case')
    if not case:
        log('replay file carries no input (no-failing-input-found); failed obligation was: %s' % rec.get('obligation'))
        log(rec.get('verifier_output', ''))
        print('VIOLATION property=%s replay=%s no-failing-input-found' % (prop, path))
        return 1
    still = hunter.replay_case(prop, case, work)
    if still:
        print('VIOLATION property=%s replay=%s' % (prop, path))
        return 1
    log('replayed input no longer fails on the current tree')
    return 0
