"""Counterexample hunter (DESIGN 3.4): builds the native replay crate from /repo's current sources and looks for a
concrete input on which the real code disagrees with a rules-level transcription.  Never the deciding step."""
import json, os, shutil, subprocess, time

from .driver import VERIF, REPO, log

_built = {}

ACCESS = {'uci.rs': 'access_uci.rs'}


def build(work):
    """-> path of the hunter binary, or None when the scratch crate does not build"""
    if work in _built:
        return _built[work]
    t0 = time.time()
    d = os.path.join(work, 'replaycrate')
    shutil.rmtree(d, ignore_errors=True)
    os.makedirs(os.path.join(d, 'src'))
    os.makedirs(os.path.join(d, 'hunter'))
    tpl = os.path.join(VERIF, 'replay')
    for f in os.listdir(os.path.join(REPO, 'src')):
        if f.endswith('.rs') and f != 'main.rs':
            s = open(os.path.join(REPO, 'src', f)).read()
            if f in ACCESS:
                s += open(os.path.join(tpl, ACCESS[f])).read()
            open(os.path.join(d, 'src', f), 'w').write(s)
    shutil.copy(os.path.join(tpl, 'lib.rs'), os.path.join(d, 'src', 'lib.rs'))
    shutil.copy(os.path.join(tpl, 'Cargo.toml'), os.path.join(d, 'Cargo.toml'))
    for lock in (os.path.join(REPO, 'Cargo.lock'), '/repo/Cargo.lock'):
        if os.path.exists(lock):
            shutil.copy(lock, os.path.join(d, 'Cargo.lock'))
            break
    for f in ('hunter.rs', 'oracle.rs'):
        shutil.copy(os.path.join(tpl, f), os.path.join(d, 'hunter', f))
    env = dict(os.environ); env['CARGO_NET_OFFLINE'] = 'true'; env['CARGO_TARGET_DIR'] = os.path.join(d, 'target')
    env.setdefault('RUSTFLAGS', '-Awarnings')
    p = subprocess.run(['cargo', 'build', '--release', '--offline', '--bin', 'hunter'], cwd=d, capture_output=True, text=True, env=env)
    if p.returncode != 0:
        # the lock file of the repository lists more packages than this crate uses; let cargo prune it
        if os.path.exists(os.path.join(d, 'Cargo.lock')):
            os.remove(os.path.join(d, 'Cargo.lock'))
        p = subprocess.run(['cargo', 'build', '--release', '--offline', '--bin', 'hunter'], cwd=d, capture_output=True, text=True, env=env)
    if p.returncode != 0:
        log('hunter: replay crate does not build (%s)' % p.stderr[-800:])
        _built[work] = None
        return None
    log('hunter: replay crate built in %.0fs' % (time.time() - t0))
    _built[work] = os.path.join(d, 'target', 'release', 'hunter')
    return _built[work]


def _parse(out):
    for l in out.splitlines():
        if l.startswith('CASE '):
            try:
                return json.loads(l[5:])
            except Exception:
                return {'raw': l[5:]}
    return None


def hunt(prop, failure, tier, seed, work, budget=None, mode='hunt', focus=''):
    exe = build(work)
    if exe is None:
        return None
    if budget is None:
        budget = 20 if tier == 'quick' else 300
    try:
        p = subprocess.run([exe, mode, prop, str(seed), str(budget)] + ([focus] if focus else []), capture_output=True, text=True, timeout=budget + 600)
    except subprocess.TimeoutExpired:
        return None
    case = _parse(p.stdout)
    if case is not None:
        case['found_by'] = 'hunter %s %s seed=%d budget=%ss' % (mode, prop, seed, budget)
        log('hunter: failing input: %s' % json.dumps(case)[:400])
    else:
        log('hunter: no failing input in budget (%s)' % p.stdout.strip()[-200:])
    return case


def cross(prop, seed, work, budget):
    """thorough tier on the unchanged tree: the transcription must agree with the (just verified) code everywhere it looks"""
    exe = build(work)
    if exe is None:
        return {'status': 'not-built'}
    p = subprocess.run([exe, 'cross', prop, str(seed), str(budget)], capture_output=True, text=True, timeout=budget + 600)
    out = {'status': 'agree', 'stdout': p.stdout.strip()[-400:]}
    case = _parse(p.stdout)
    if case is not None:
        out['status'] = 'disagree'
        out['case'] = case
    return out


def replay_case(prop, case, work):
    exe = build(work)
    if exe is None:
        log('replay: crate does not build')
        return True
    js = json.dumps(case, separators=(',', ':'))
    p = subprocess.run([exe, 'replay', prop, js], capture_output=True, text=True, timeout=600)
    log('replay: ' + p.stdout.strip()[-400:])
    return p.returncode != 0


def make_bounded_engine(what, bound, quick_s, thorough_s):
    """A native, BOUNDED stand-in for a function neither verifier reaches (stated bound, never counted as proved)."""
    def run(prop, tier, seed, jobs, work):
        budget = quick_s if tier == 'quick' else thorough_s
        t0 = time.time()
        r = cross(prop, seed, work, budget)
        unit = {'bundle': 'native-bounded', 'unit': 'hunter cross %s' % prop, 'status': 'ok' if r['status'] == 'agree' else r['status'], 'wall_s': round(time.time() - t0, 1),
                'backend': 'native execution of the real code against the rules oracle (replay/oracle.rs)', 'bounded': bound, 'what': what, 'stats': r.get('stdout', '')}
        out = {'units': [unit], 'failures': [], 'undecided': [], 'samples': [], 'cmds': [],
               'bounded': [{'harness': 'hunter cross %s' % prop, 'bound': bound + ' (seed %d, %ds)' % (seed, budget), 'status': unit['status'], 'wall_s': unit['wall_s'], 'what': what, 'stats': r.get('stdout', '')}]}
        if r['status'] == 'disagree':
            out['failures'].append({'bundle': 'native-bounded', 'unit': unit['unit'], 'obligation': 'bounded/%s: %s' % (prop, (r['case'].get('observed') or '')[:200]), 'detail': None,
                                    'rendered': json.dumps(r['case']), 'case': dict(r['case'], found_by='bounded native stand-in')})
        return out
    return run
