"""Counterexample hunter (DESIGN 3.4): native replay crate over the real sources.  Filled in per property."""

def hunt(prop, failure, tier, seed, work):
    return None

def replay_case(prop, case, work):
    return True
