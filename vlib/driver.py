"""check driver: regenerate -> verify unit by unit -> classify -> evidence / VIOLATION / UNDECIDED."""
import json, os, re, shutil, subprocess, sys, tempfile, time, hashlib

from .core import Gen, FileMap
from .extract import LostAnchor, mask
from . import verus as V

VERIF = os.path.dirname(os.path.dirname(os.path.abspath(__file__)))
REPO = os.environ.get('VERIF_REPO', '/repo')

ASSUME_PAT = re.compile(r'\bassume\s*\(|\badmit\s*\(|external_body|assume_specification|#\[verifier::external|external_trait_specification|external_type_specification')


class Undecided(Exception):
    pass


def log(msg):
    print(msg, flush=True)


def scratch_dir():
    base = os.environ.get('TMPDIR', '/tmp')
    d = os.path.join(base, 'walleye-verif.%d' % os.getpid())
    os.makedirs(d, exist_ok=True)
    return d


def scan_assumptions(text):
    """Every trusted construct in the generated file, by line (mechanical scan, DESIGN 3.5)."""
    m = mask(text)
    out = []
    lines = text.split('\n')
    mlines = m.split('\n')
    for i, ml in enumerate(mlines):
        if ASSUME_PAT.search(ml):
            # name: the next fn / the assume_specification target
            ctx = ' '.join(l.strip() for l in lines[i:i + 3])
            mo = re.search(r'assume_specification(?:<[^\[]*>)?\s*\[\s*([^\]]+?)\s*\]', ctx) or re.search(r'fn\s+([A-Za-z0-9_]+)', ctx) or re.search(r'(struct|trait|type)\s+([A-Za-z0-9_]+)', ctx)
            what = ASSUME_PAT.search(ml).group(0).strip('( ')
            for w in ('external_body', 'assume_specification', 'external_trait_specification', 'external_type_specification'):
                if w in ml:
                    what = w
            out.append({'line': i + 1, 'what': what, 'name': mo.group(mo.lastindex) if mo else ctx[:60]})
    return out


def proof_and_recspec_fns(text):
    """names of `proof fn` (with a body, not external_body) and of spec fns with a decreases clause"""
    m = mask(text)
    names = []
    for mo in re.finditer(r'(?m)^(?P<attrs>(?:[ \t]*#\[[^\n]*\]\n)*)[ \t]*(?:pub\s+)?(?:open\s+|closed\s+|broadcast\s+)*(?P<mode>proof|spec)\s+fn\s+(?P<name>[A-Za-z0-9_]+)', m):
        attrs = text[mo.start('attrs'):mo.end('attrs')]
        if 'external_body' in attrs:
            continue
        # signature up to the body brace
        j = mo.end()
        depth = 0
        sig_end = None
        while j < len(m):
            ch = m[j]
            if ch in '([':
                depth += 1
            elif ch in ')]':
                depth -= 1
            elif ch == ';' and depth == 0:
                break
            elif ch == '{' and depth == 0:
                sig_end = j
                break
            j += 1
        if sig_end is None:
            continue
        sig = m[mo.end():sig_end]
        if mo.group('mode') == 'proof':
            names.append(mo.group('name'))
        elif re.search(r'\bdecreases\b', sig):
            names.append(mo.group('name'))
    return names


class BundleRun:
    """One generated file (bundle x profile) and the result of verifying its units."""

    def __init__(self, name, builder, profile, cfg, workdir, canary=False, stub=()):
        self.name = name
        self.profile = profile
        self.cfg = cfg
        self.canary = canary
        self.g = Gen(REPO, profile=profile, stub=stub, canary=canary)
        if canary:
            self.g._canary_targets = cfg.get('_canary_targets', ())
        builder(self.g)
        self.text = self.g.text()
        tag = '_'.join(sorted(profile)) if profile else 'all'
        self.path = os.path.join(workdir, '%s__%s%s.rs' % (name, tag, '__canary' if canary else ''))
        open(self.path, 'w').write(self.text)
        self.workdir = workdir
        self.fmap = FileMap(self.text, self.g.clauses)
        self.results = {}

    def unit_names(self, prop):
        avail, err = V.available_functions(self.path, self.workdir)
        if avail is None:
            raise Undecided('verus front end rejected %s: %s' % (os.path.basename(self.path), err[-1200:]))
        avail_set = set(avail)
        units = []
        for u in self.g.units:
            if u['stubbed']:
                continue
            if prop is None or prop in u['props'] or not u['props']:
                if u['fn'] not in avail_set:
                    raise Undecided('unit %s not visible to verus in %s' % (u['fn'], self.name))
                units.append(u['fn'])
        lem = [n for n in proof_and_recspec_fns(self.text) if n in avail_set]
        skip = set(self.cfg.get('skip_lemmas_for', {}).get(prop, ()))
        only = self.cfg.get('lemmas_for', {}).get(prop)
        for n in lem:
            if n in skip:
                continue
            if only is not None and n not in only:
                continue
            units.append(n)
        seen = set(); out = []
        for u in units:
            if u not in seen:
                seen.add(u); out.append(u)
        return out

    def verify(self, units, jobs, seed):
        self.results = V.run_units(self.path, self.workdir, units, self.cfg.get('rlimits', {}), self.cfg.get('rlimit', 30), jobs=jobs, seed=seed, log=log)
        return self.results

    def describe_error(self, err):
        """map a verus diagnostic to (clause or copied-code snippet)"""
        hits = []
        for sp in err['spans']:
            try:
                pos = self.fmap.pos(sp['line'], sp['col'])
            except Exception:
                continue
            cl = self.fmap.clause_at(pos)
            hits.append({'label': sp.get('label'), 'primary': sp.get('primary'), 'text': sp.get('text'),
                         'clause': ({'id': cl['id'], 'fn': cl['fn'], 'kind': cl['kind'], 'tags': cl['tags'], 'attr': cl.get('attr'), 'text': cl['text']} if cl else None)})
        return {'message': err['message'], 'where': hits}


def repo_line_of(snippet, relfile):
    try:
        for i, l in enumerate(open(os.path.join(REPO, relfile)).read().split('\n')):
            if snippet and snippet.strip() and snippet.strip() in l:
                return i + 1
    except Exception:
        pass
    return None


def load_known_findings():
    p = os.path.join(VERIF, 'known_findings.txt')
    out = []
    if os.path.exists(p):
        for l in open(p):
            l = l.strip()
            if l.startswith('finding:'):
                d = dict(re.findall(r'(\w+)=("[^"]*"|\S+)', l))
                d = {k: v.strip('"') for k, v in d.items()}
                d['raw'] = l
                out.append(d)
    return out


def write_evidence(prop, ev):
    # evidence/ describes /repo only; runs against another tree (VERIF_REPO, maintenance) write elsewhere
    sub = 'evidence' if os.path.realpath(REPO) == '/repo' else 'evidence_other_tree'
    os.makedirs(os.path.join(VERIF, sub), exist_ok=True)
    p = os.path.join(VERIF, sub, prop + '.json')
    json.dump(ev, open(p, 'w'), indent=1, sort_keys=True)
    return p


def _proof_fn_sig(text, m, name):
    mo = re.search(r'\bproof\s+fn\s+' + re.escape(name) + r'\b', m)
    if not mo:
        return None
    j = mo.end(); depth = 0
    while j < len(m):
        ch = m[j]
        if ch in '([':
            depth += 1
        elif ch in ')]':
            depth -= 1
        elif ch == '{' and depth == 0:
            # a `{` inside the contract (struct literal / match / block) is followed by a matching `}` and more contract text;
            # the body brace is the one whose preceding non-space text is not an operator/keyword context -- approximate:
            # contracts in this code base never contain a top-level `{` at column 0, and bodies start with `\n{`
            if m[j - 1] == '\n':
                return (mo.start(), j)
        j += 1
    return None


def proof_fns_with_requires(text):
    m = mask(text)
    out = []
    for mo in re.finditer(r'\bproof\s+fn\s+([A-Za-z0-9_]+)', m):
        sig = _proof_fn_sig(text, m, mo.group(1))
        if sig and re.search(r'\brequires\b', m[sig[0]:sig[1]]) and re.search(r'\bensures\b', m[sig[0]:sig[1]]):
            out.append(mo.group(1))
    return out


def lemma_canary_text(text, name):
    m = mask(text)
    sig = _proof_fn_sig(text, m, name)
    if not sig:
        return None
    es = [x for x in re.finditer(r'\bensures\b', m[sig[0]:sig[1]])]
    if not es:
        return None
    pos = sig[0] + es[-1].end()
    return text[:pos] + ' false,' + text[pos:]
