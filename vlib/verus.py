"""Run Verus one verification unit per process and classify the outcome."""
import json, os, re, subprocess, time
from concurrent.futures import ThreadPoolExecutor

VERUS = os.environ.get('VERIF_VERUS', 'verus')
RLIMIT_PAT = re.compile(r'resource limit|rlimit', re.I)


def _env():
    e = dict(os.environ)
    e.setdefault('CARGO_NET_OFFLINE', 'true')
    return e


def available_functions(path, cwd):
    """Ask Verus for the list of function names it sees (uses the 'could not find function' listing)."""
    p = subprocess.run([VERUS, path, '--verify-root', '--verify-function', '__verif_no_such_function__'],
                       cwd=cwd, capture_output=True, text=True, env=_env())
    names = re.findall(r'(?m)^\s+- (\S+)\s*$', p.stderr)
    if not names:
        return None, p.stderr
    return names, p.stderr


def parse_diags(stderr):
    out = []
    for line in stderr.splitlines():
        line = line.strip()
        if not line.startswith('{'):
            continue
        try:
            d = json.loads(line)
        except Exception:
            continue
        if d.get('$message_type') != 'diagnostic':
            continue
        out.append(d)
    return out


def run_unit(path, cwd, unit, rlimit, seed=None, timeout=3600, extra=()):
    cmd = [VERUS, path, '--verify-root', '--verify-function', unit, '--output-json', '--time',
           '--error-format=json', '--multiple-errors', '8', '--rlimit', str(rlimit)]
    if seed is not None:
        cmd += ['--smt-option', 'smt.random_seed=%d' % seed]
    cmd += list(extra)
    t0 = time.time()
    import signal
    proc = subprocess.Popen(cmd, cwd=cwd, stdout=subprocess.PIPE, stderr=subprocess.PIPE, text=True, env=_env(), start_new_session=True)
    try:
        stdout, stderr = proc.communicate(timeout=timeout)
        rc = proc.returncode
    except subprocess.TimeoutExpired:
        try:
            os.killpg(proc.pid, signal.SIGKILL)   # the verifier and its z3 child
        except Exception:
            pass
        try:
            proc.communicate(timeout=30)
        except Exception:
            pass
        return {'unit': unit, 'status': 'timeout', 'wall_s': time.time() - t0, 'errors': [], 'cmd': ' '.join(cmd)}
    wall = time.time() - t0
    res = {'unit': unit, 'wall_s': round(wall, 2), 'cmd': ' '.join(cmd), 'rlimit': rlimit, 'seed': seed}
    try:
        js = json.loads(stdout[stdout.index('{'):])
    except Exception:
        js = None
    diags = parse_diags(stderr)
    errs = [d for d in diags if d.get('level') == 'error' and not d.get('message', '').startswith('aborting due to')]
    res['errors'] = [{'message': d.get('message', ''),
                      'spans': [{'line': s['line_start'], 'col': s['column_start'], 'label': s.get('label'), 'primary': s.get('is_primary'),
                                 'text': (s.get('text') or [{}])[0].get('text', '').strip()[:200]} for s in d.get('spans', [])],
                      'rendered': (d.get('rendered') or '')[:1500]} for d in errs]
    if js is None:
        res['status'] = 'crash'
        res['stderr_tail'] = stderr[-1500:]
        return res
    vr = js.get('verification-results', {})
    res['verified'] = vr.get('verified', 0)
    res['nerrors'] = vr.get('errors', 0)
    smt = 0; rl = 0
    try:
        for mod in js['times-ms']['smt']['smt-run-module-times']:
            for f in mod.get('function-breakdown', []):
                if f.get('rlimit', 0) > 0 or f.get('time-micros', 0) > 0:
                    smt += f.get('time-micros', 0); rl += f.get('rlimit', 0)
        res['solver_ms'] = round(smt / 1000.0, 1)
        res['rlimit_used'] = rl
        res['verus_version'] = js.get('verus', {}).get('version')
    except Exception:
        pass
    if vr.get('encountered-vir-error') or (vr.get('encountered-error') and res['nerrors'] == 0 and res['verified'] == 0):
        res['status'] = 'frontend'
        res['stderr_tail'] = stderr[-1500:]
    elif res['nerrors'] == 0 and res['verified'] >= 1:
        res['status'] = 'ok'
    elif res['nerrors'] == 0:
        res['status'] = 'nothing'      # unit had no obligation (e.g. non-recursive spec fn)
    elif any(RLIMIT_PAT.search(e['message']) for e in res['errors']):
        # mixed: if every error is an rlimit one it is inconclusive, otherwise definite
        defin = [e for e in res['errors'] if not RLIMIT_PAT.search(e['message'])]
        res['status'] = 'fail' if defin else 'rlimit'
    else:
        res['status'] = 'fail'
    return res


def run_units(path, cwd, units, rlimits, default_rlimit, jobs=16, seed=None, retry_rlimit=True, log=None):
    """units: list of names.  Returns {unit: result}.  rlimit-inconclusive units are retried once with 4x rlimit
    and another random seed; a unit that is still inconclusive keeps status 'rlimit' (=> undecided, never a violation)."""
    order = sorted(units, key=lambda u: -rlimits.get(u, default_rlimit))
    results = {}

    def one(u):
        rl = rlimits.get(u, default_rlimit)
        r = run_unit(path, cwd, u, rl, seed=seed)
        if r['status'] in ('rlimit', 'timeout') and retry_rlimit:
            r2 = run_unit(path, cwd, u, rl * 4, seed=(seed or 0) + 17)
            r2['retried_from'] = {'status': r['status'], 'rlimit': rl, 'wall_s': r['wall_s']}
            r = r2
        if log:
            log('  unit %-45s %-8s %6.1fs' % (u, r['status'], r['wall_s']))
        return u, r

    with ThreadPoolExecutor(max_workers=jobs) as ex:
        for u, r in ex.map(one, order):
            results[u] = r
    return results
