"""Generation context: one Verus file from the current /repo working tree + contract data."""
import os, re
from .extract import Src, Clauses, annotate_fn, stub_fn, sha, LostAnchor, mask

PRELUDE = '''// GENERATED on every run from the repository's working tree -- do not edit.
#![allow(unused_imports, unused_variables, unused_mut, dead_code, non_snake_case, unused_parens, unused_assignments)]
use vstd::prelude::*;
use vstd::std_specs::cmp::PartialEqSpecImpl;
use vstd::std_specs::ops::AddAssignSpec;
use std::collections::HashMap;
use std::str::FromStr;
#[allow(unused_macros)]
macro_rules! error { ($($t:tt)*) => {} }
verus! {
'''
EPILOGUE = '\n} // verus!\nfn main() {}\n'

FILES = ['board', 'move_generation', 'zobrist', 'evaluation', 'draw_table', 'uci', 'time_control']


class Gen:
    def __init__(self, repo, profile=None, stub=(), canary=False):
        self.repo = repo
        self.src = {}
        self.clauses = Clauses(profile)
        self.profile = profile
        self.stub = set(stub)
        self.canary = canary
        self.units = []          # functions under contract copied from the repo
        self.copied = []         # other items copied verbatim
        self.rewrites = []       # R1/R2/... applied
        self.parts = []
        self.outside = []        # items copied verbatim OUTSIDE verus!{} (compiled by rustc, ignored by Verus)
        self.exec_fns = []       # names as Verus will call them (for --verify-function)

    def S(self, f):
        if f not in self.src:
            self.src[f] = Src(os.path.join(self.repo, 'src', f + '.rs'))
        return self.src[f]

    # ---- verbatim items ----
    def typ(self, f, kw, name):
        s = self.S(f); a, e = s.find_type(kw, name)
        self.copied.append({'item': '%s %s' % (kw, name), 'file': 'src/%s.rs' % f, 'line': s.line_of(a)})
        return s.s[a:e]

    def const(self, f, name, static_str=False, expect_text=None):
        s = self.S(f); a, e = s.find_const(name)
        if expect_text is not None and ' '.join(expect_text.split()) not in ' '.join(s.s[a:e].split()):
            raise LostAnchor('const %s: expected table text not found (edited or reordered: the index-wise proof does not apply)' % name)
        self.copied.append({'item': 'const ' + name, 'file': 'src/%s.rs' % f, 'line': s.line_of(a)})
        t = s.s[a:e]
        if static_str:
            t = t.replace(': &str', ": &'static str")
        return t

    # ---- functions ----
    def _fn_text(self, f, name, impl=None):
        s = self.S(f)
        if impl:
            imp = s.find_impl(impl)
            a, ob, e = s.find_fn(name, within=(imp[1], imp[2]))
        else:
            a, ob, e = s.find_fn(name)
        return s.s[a:e], s.line_of(ob)

    def fn(self, f, name, ann=None, impl=None, qual=None, rewrites=(), props=(), own=None):
        """copy function `name`, apply the exact-text rewrites, annotate.  qual: Verus-side name."""
        text, line = self._fn_text(f, name, impl)
        orig = text
        # signature fingerprint (normalised text from `fn` to the body brace): contracts are written against these parameters
        m_ = mask(orig)
        k_ = m_.index('fn ')
        sig = ' '.join(orig[k_:m_.index('{', k_)].split())
        for (rid, header, repl) in rewrites:
            if text.count(header) != 1:
                raise LostAnchor('%s: rewrite %s: loop header not found exactly once' % (name, rid))
            text = text.replace(header, repl)
            self.rewrites.append({'id': rid, 'fn': name, 'from': header.strip(), 'to': ' '.join(repl.split())})
        vname = qual or name
        ann = dict(ann or {})
        if self.canary and vname in self.canary_targets():
            ann['ensures'] = list(ann.get('ensures') or []) + ['@CANARY| false']
        out, fp = annotate_fn(text, ann, self.clauses, vname)
        if vname in self.stub or name in self.stub:
            out = stub_fn(out)
        self.units.append({'fn': vname, 'file': 'src/%s.rs' % f, 'line': line, 'sha256': sha(orig), 'fingerprint': fp, 'sig': sig,
                           'props': list(props), 'own': list(props if own is None else own), 'stubbed': (vname in self.stub or name in self.stub),
                           'has_contract': bool(ann.get('requires') or ann.get('ensures'))})
        return out

    _canary_targets = None

    def canary_targets(self):
        return self._canary_targets if self._canary_targets is not None else ()

    def add(self, *texts):
        for t in texts:
            self.parts.append(t)

    def text(self):
        return PRELUDE + '\n'.join(self.parts) + '\n} // verus!\n' + '\n'.join(self.outside) + '\nfn main() {}\n'


SENT_OPEN = re.compile(r'/\*#(\d+)\*/')
SENT_CLOSE = re.compile(r'/\*#/(\d+)\*/')


class FileMap:
    """Positions of clause sentinels and functions in the final generated text."""

    def __init__(self, text, clauses):
        self.text = text
        self.clauses = clauses
        self.spans = {}   # id -> (start, end)
        opens = {}
        for mo in SENT_OPEN.finditer(text):
            opens[int(mo.group(1))] = mo.start()
        for mo in SENT_CLOSE.finditer(text):
            k = int(mo.group(1))
            if k in opens:
                self.spans[k] = (opens[k], mo.end())
        self.line_starts = [0]
        for i, ch in enumerate(text):
            if ch == '\n':
                self.line_starts.append(i + 1)

    def pos(self, line, col):
        return self.line_starts[line - 1] + col - 1

    def clause_at(self, pos):
        best = None
        for k, (a, b) in self.spans.items():
            if a <= pos < b:
                if best is None or (b - a) < (self.spans[best][1] - self.spans[best][0]):
                    best = k
        return self.clauses.items[best] if best is not None else None
