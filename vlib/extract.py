"""Mechanical extraction of real Walleye items into one Verus file.

Items are copied byte-for-byte from /repo/src. The only edits are *insertions*
(contracts after the signature, loop invariants after loop headers, proof blocks at
structural anchors, an iterator name in `for PAT in EXPR`), plus naming the return
value (`-> T` becomes `-> (res: T)`), plus the exact-text loop-header rewrites R1/R2
(see DESIGN.md 3.1).  Everything inserted is wrapped in clause sentinels
`/*#k*/ ... /*#/k*/` so that a verifier diagnostic can be mapped back to the clause
(and its property tags) or, when it lies outside every sentinel pair, to copied code.
"""
import re, hashlib


class LostAnchor(Exception):
    """The source no longer has the structure the annotations were written for."""


def mask(src):
    """Return src with comments/strings/chars replaced by spaces (same length)."""
    out = list(src)
    i, n = 0, len(src)
    while i < n:
        c = src[i]
        if src.startswith('//', i):
            j = src.find('\n', i)
            j = n if j < 0 else j
            for k in range(i, j):
                out[k] = ' '
            i = j
        elif src.startswith('/*', i):
            depth, j = 1, i + 2
            while j < n and depth:
                if src.startswith('/*', j):
                    depth += 1; j += 2
                elif src.startswith('*/', j):
                    depth -= 1; j += 2
                else:
                    j += 1
            for k in range(i, j):
                if out[k] != '\n':
                    out[k] = ' '
            i = j
        elif c == '"':
            j = i + 1
            while j < n and src[j] != '"':
                j += 2 if src[j] == '\\' else 1
            for k in range(i + 1, j):
                if out[k] != '\n':
                    out[k] = ' '
            i = j + 1
        elif c == "'":
            m = re.match(r"'(\\.|[^\\'])'", src[i:])
            if m:
                for k in range(i + 1, i + m.end() - 1):
                    out[k] = ' '
                i += m.end()
            else:
                i += 1
        else:
            i += 1
    return ''.join(out)


def match_brace(m, i):
    if m[i] != '{':
        raise LostAnchor('expected { at %d' % i)
    d = 0
    for j in range(i, len(m)):
        if m[j] == '{':
            d += 1
        elif m[j] == '}':
            d -= 1
            if d == 0:
                return j
    raise LostAnchor('unbalanced braces')


def attr_start(src, i):
    """extend item start backwards over attribute lines (#[...]) directly above"""
    while True:
        pe = i - 1
        if pe <= 0:
            return i
        ps = src.rfind('\n', 0, pe) + 1
        line = src[ps:pe].strip()
        if line.startswith('#[') and line.endswith(']'):
            i = ps
        else:
            return i


class Src:
    def __init__(self, path):
        self.path = path
        self.s = open(path).read()
        self.m = mask(self.s)

    def line_of(self, pos):
        return self.s.count('\n', 0, pos) + 1

    def find_fn(self, name, within=None):
        lo, hi = (0, len(self.s)) if within is None else within
        for mo in re.finditer(r'(?m)^[ \t]*(pub(\([a-z]+\))? )?(const )?fn ' + re.escape(name) + r'\b', self.m[lo:hi]):
            st = lo + mo.start()
            ob = self.m.index('{', st)
            cb = match_brace(self.m, ob)
            return (attr_start(self.s, st), ob, cb + 1)
        raise LostAnchor('function %s not found in %s' % (name, self.path))

    def find_impl(self, header_re):
        mo = re.search(r'(?m)^impl\s+' + header_re + r'\s*\{', self.m)
        if not mo:
            raise LostAnchor('impl %s not found in %s' % (header_re, self.path))
        ob = mo.end() - 1
        return (mo.start(), ob, match_brace(self.m, ob) + 1)

    def find_type(self, kw, name):
        mo = re.search(r'(?m)^(pub )?' + kw + r' ' + name + r'\b', self.m)
        if not mo:
            raise LostAnchor('%s %s not found in %s' % (kw, name, self.path))
        st = mo.start()
        semi = self.m.find(';', st)
        ob = self.m.find('{', st)
        if ob >= 0 and (semi < 0 or ob < semi):
            en = match_brace(self.m, ob) + 1
        else:
            en = semi + 1
        return (attr_start(self.s, st), en)

    def find_const(self, name):
        mo = re.search(r'(?m)^(pub )?const ' + name + r'\b', self.m)
        if not mo:
            raise LostAnchor('const %s not found in %s' % (name, self.path))
        st = mo.start()
        en = None
        d = 0
        for j in range(st, len(self.m)):
            ch = self.m[j]
            if ch in '([{':
                d += 1
            elif ch in ')]}':
                d -= 1
            elif ch == ';' and d == 0:
                en = j + 1
                break
        if en is None:
            raise LostAnchor('const %s unterminated' % name)
        return (attr_start(self.s, st), en)


LOOP_RE = re.compile(r'\b(for|while|loop)\b')
TAG_RE = re.compile(r'^@([A-Z0-9,]+)\|\s*')
ATTR_RE = re.compile(r'^@~([A-Z0-9,]*)\|\s*')


def split_tag(s):
    """'@C05,C13| text' -> (('C05','C13'), 'text');  'text' -> ((), 'text')"""
    mo = TAG_RE.match(s)
    if mo:
        return tuple(mo.group(1).split(',')), s[mo.end():]
    return (), s


def split_attr(s):
    """'@~C02,C04| text': the clause is kept in EVERY profile, but its failure counts as a violation only of the listed
    properties; for the others it is a failed *support* obligation (the proof does not go through: undecided)."""
    mo = ATTR_RE.match(s)
    if mo:
        return tuple(x for x in mo.group(1).split(',') if x), s[mo.end():]
    return None, s


class Clauses:
    """Registry of every inserted clause / hint, for mapping diagnostics back."""

    def __init__(self, profile=None):
        self.items = []
        self.profile = set(profile) if profile else None

    def keep(self, tags):
        return self.profile is None or not tags or 'CANARY' in tags or bool(set(tags) & self.profile)

    def wrap(self, fn, kind, raw):
        """returns wrapped text or None when filtered out by the profile"""
        attr, raw = split_attr(raw)
        tags, text = split_tag(raw)
        if not self.keep(tags):
            return None
        k = len(self.items)
        self.items.append({'id': k, 'fn': fn, 'kind': kind, 'tags': list(tags), 'attr': (list(attr) if attr is not None else None), 'text': ' '.join(text.split())[:300]})
        return '/*#%d*/%s/*#/%d*/' % (k, text, k)


def annotate_fn(text, ann, clauses, fname):
    """text: verbatim fn item (attrs + sig + body).  ann: dict with optional keys
       ret, requires, ensures, decreases, body_start, loops{ordinal:{iter,invariant,decreases,body_start,body_end,after}},
       before_return{ordinal:str}, before_text/after_text [(needle, occurrence, proof)], at_end, at_end_before_tail,
       expect {loops:[kinds], returns:int}.
       Returns (annotated text, fingerprint)."""
    m = mask(text)
    try:
        ob = m.index('{', m.index('fn '))
    except ValueError:
        raise LostAnchor('%s: no body' % fname)
    cb = match_brace(m, ob)
    ins = []  # (pos, priority, string)

    def W(kind, raw):
        return clauses.wrap(fname, kind, raw)

    def Wlist(kind, lst):
        out = []
        for raw in lst or []:
            w = W(kind, raw)
            if w is not None:
                out.append(w)
        return out

    if ann.get('ret'):
        mo = re.search(r'->\s*([^{]+?)\s*$', m[:ob])
        if not mo:
            raise LostAnchor('%s: return type not found' % fname)
        ins.append((mo.start(1), 0, '(' + ann['ret'] + ': '))
        ins.append((mo.end(1), 0, ')'))
    if ann.get('fn_attr') is None and ann.get('loops') and not ann.get('isolated_loops'):
        ann = dict(ann); ann['fn_attr'] = '#[verifier::loop_isolation(false)]'
    if ann.get('fn_attr'):
        # verifier attribute on the copied function (e.g. loop_isolation(false): facts established before a loop stay
        # visible inside it, so hoisting a call out of a loop does not lose the callee's postcondition)
        ins.append((0, 0, ann['fn_attr'] + '\n'))
    clause = ''
    req = Wlist('requires', ann.get('requires'))
    ens = Wlist('ensures', ann.get('ensures'))
    if req:
        clause += '\n    requires\n        ' + ',\n        '.join(req) + ','
    if ens:
        clause += '\n    ensures\n        ' + ',\n        '.join(ens) + ','
    if ann.get('decreases'):
        clause += '\n    decreases ' + ann['decreases'] + ','
    if clause:
        ins.append((ob, 1, clause + '\n'))
    if ann.get('body_start'):
        w = W('hint', ann['body_start'])
        if w:
            ins.append((ob + 1, 0, '\n' + w + '\n'))
    loops = []
    for mo in LOOP_RE.finditer(m, ob, cb):
        try:
            lob = m.index('{', mo.end())
        except ValueError:
            raise LostAnchor('%s: loop without body' % fname)
        loops.append((mo.group(1), mo.start(), mo.end(), lob, match_brace(m, lob)))
    fingerprint = {'loops': [k for (k, *_) in loops]}
    if ann.get('isolated_loops') and loops and 0 in {int(k) for k in (ann.get('loops') or {})}:
        # A loop verified in isolation forgets the definition of an immutable local bound before it.  So that hoisting a pure
        # sub-expression into a `let` in front of the loop is not mistaken for a violation, every top-level
        # `let name = <call-free expression>;` before the first loop becomes the invariant `name == (<expression>)` of that loop
        # (generated from the code; if it does not type-check in spec mode the front end rejects the file: exit 2, no alarm).
        first = loops[0][1]
        auto = []
        for mo in re.finditer(r'(?m)^    let\s+([a-z_][a-z0-9_]*)\s*(?::[^=;]+)?=\s*([^;{}()]+);', m[ob + 1:first]):
            auto.append('%s == (%s)' % (mo.group(1), text[ob + 1 + mo.start(2):ob + 1 + mo.end(2)].strip()))
        if auto:
            ann = dict(ann); lp = dict(ann['loops']); k0 = [k for k in lp if int(k) == 0][0]
            l0 = dict(lp[k0]); l0['invariant'] = list(l0.get('invariant') or []) + auto; lp[k0] = l0; ann['loops'] = lp
            fingerprint['auto_invariants'] = auto
    for idx, spec in (ann.get('loops') or {}).items():
        idx = int(idx)
        if idx >= len(loops):
            raise LostAnchor('%s: loop #%d not found' % (fname, idx))
        kind, ks, ke, lob, lcb = loops[idx]
        if kind == 'for' and spec.get('iter'):
            mo = re.compile(r'\bin\b').search(m, ke, lob)
            if not mo:
                raise LostAnchor('%s: for-loop #%d without `in`' % (fname, idx))
            ins.append((mo.end(), 0, ' ' + spec['iter'] + ':'))
        inv = ''
        invs = Wlist('invariant', spec.get('invariant'))
        if invs:
            inv += '\n        invariant\n            ' + ',\n            '.join(invs) + ','
        if spec.get('decreases'):
            inv += '\n        decreases ' + spec['decreases'] + ','
        if inv:
            ins.append((lob, 1, inv + '\n        '))
        for key, pos in (('body_start', lob + 1), ('body_end', lcb), ('after', lcb + 1)):
            if spec.get(key):
                vals = spec[key] if isinstance(spec[key], (list, tuple)) else [spec[key]]
                for raw in reversed(vals):
                    w = W('hint', raw)
                    if w:
                        ins.append((pos, 0, '\n' + w + '\n'))
    rets = [mo.start() for mo in re.finditer(r'\breturn\b', m[ob:cb])]
    fingerprint['returns'] = len(rets)
    for idx, s in (ann.get('before_return') or {}).items():
        idx = int(idx)
        if idx >= len(rets):
            raise LostAnchor('%s: return #%d not found' % (fname, idx))
        if s:
            w = W('hint', s)
            if w:
                ins.append((ob + rets[idx], 0, w + '\n'))
    for key in ('before_text', 'after_text'):
        for needle, occ, proof in (ann.get(key) or []):
            pos = -1
            start = ob
            for _ in range(occ + 1):
                pos = text.find(needle, start)
                if pos < 0:
                    raise LostAnchor('%s: text anchor %r #%d not found' % (fname, needle, occ))
                start = pos + 1
            w = W('hint', proof)
            if w:
                if key == 'before_text':
                    ins.append((pos, 0, w + '\n'))
                else:
                    ins.append((pos + len(needle), 0, '\n' + w + '\n'))
    # after_stmt: (needle, occurrence, proof): insert after the statement that starts with `needle`
    # (end = the first ';' at parenthesis/brace depth 0 after the needle) -- independent of indentation
    for needle, occ, proof in (ann.get('after_stmt') or []):
        pos = -1
        start = ob
        for _ in range(occ + 1):
            pos = text.find(needle, start)
            if pos < 0:
                raise LostAnchor('%s: statement anchor %r #%d not found' % (fname, needle, occ))
            start = pos + 1
        d = 0
        end = None
        for j in range(pos, cb):
            ch = m[j]
            if ch in '([{':
                d += 1
            elif ch in ')]}':
                d -= 1
                if d < 0:
                    break
            elif ch == ';' and d == 0:
                end = j + 1
                break
        if end is None:
            raise LostAnchor('%s: statement anchor %r #%d has no end' % (fname, needle, occ))
        w = W('hint', proof)
        if w:
            ins.append((end, 0, '\n' + w + '\n'))
    # block_end: (needle, occurrence, proof): insert at the END of the innermost block that contains the statement starting
    # with `needle` -- the hint then sees the state after every statement of that block, whatever their order
    for needle, occ, proof in (ann.get('block_end') or []):
        pos = -1
        start = ob
        for _ in range(occ + 1):
            pos = text.find(needle, start)
            if pos < 0:
                raise LostAnchor('%s: block anchor %r #%d not found' % (fname, needle, occ))
            start = pos + 1
        d = 0
        open_at = None
        for j in range(pos, ob, -1):
            ch = m[j]
            if ch == '}':
                d += 1
            elif ch == '{':
                if d == 0:
                    open_at = j
                    break
                d -= 1
        if open_at is None:
            raise LostAnchor('%s: block anchor %r #%d has no enclosing block' % (fname, needle, occ))
        close_at = match_brace(m, open_at)
        w = W('hint', proof)
        if w:
            ins.append((close_at, 0, '\n' + w + '\n'))
    if ann.get('at_end'):
        ends = ann['at_end'] if isinstance(ann['at_end'], (list, tuple)) else [ann['at_end']]
        for raw in reversed(ends):     # equal positions are emitted in reverse insertion order
            w = W('hint', raw)
            if w:
                if ann.get('at_end_before_tail'):
                    last_nl = text.rfind('\n', ob, cb - 1)
                    pos = text.rfind('\n', ob, last_nl) + 1
                else:
                    pos = cb
                ins.append((pos, 0, w + '\n'))
    exp = ann.get('expect')
    if exp and exp.get('contains'):
        # literals the proof is indexed against (direction tables): if they were edited the proof does not apply
        # ... and the order of the blocks the hints are written for: the listed texts must occur in this order
        flat = ' '.join(text.split())
        at = 0
        for lit in exp['contains']:
            k = flat.find(' '.join(lit.split()), at)
            if k < 0:
                raise LostAnchor('%s: expected text %r not found at its place (edited, or blocks reordered: the position-indexed proof does not apply)' % (fname, lit))
            at = k + 1
    if exp:
        for k in exp:
            if k == 'contains':
                continue
            if exp[k] != fingerprint.get(k):
                raise LostAnchor('%s: structural fingerprint changed (%s: expected %r, found %r)' % (fname, k, exp[k], fingerprint.get(k)))
    out = text
    for pos, _, s in sorted(ins, key=lambda t: (-t[0], -t[1])):
        out = out[:pos] + s + out[pos:]
    return out, fingerprint


def stub_fn(annotated_text):
    """Keep attributes, signature and contract; replace the body.  Used only to leave a heavy
    function out of a verification run in which it is a *callee* (its own body is verified in
    another run of the same check from the same annotation data)."""
    m = mask(annotated_text)
    ob = None
    # the body brace is the first '{' at depth 0 of parentheses after 'fn' that is not inside the contract:
    # contracts are inserted immediately before the body brace, so it is the last top-level '{' whose match ends the text
    end = len(m.rstrip())
    d = 0
    stack = []
    for j, ch in enumerate(m[:end]):
        if ch == '{':
            stack.append(j)
        elif ch == '}':
            st = stack.pop()
            if not stack and j == end - 1:
                ob = st
    if ob is None:
        raise LostAnchor('stub: body not found')
    return '#[verifier::external_body]\n' + annotated_text[:ob] + '{ unimplemented!() }\n'


def sha(text):
    return hashlib.sha256(text.encode()).hexdigest()
