
// ---- appended to the scratch copy only: Kani harnesses that discharge the three glue axioms of the Verus bundles on the real
// ---- Rust semantics (the Verus side states them as external_body / assume_specification because vstd lacks these impls)
#[cfg(kani)]
mod verif_kani_axioms {
    use super::*;
    fn any_square() -> Square {
        let code: u8 = kani::any();
        kani::assume(code < 14);
        if code == 0 { return Square::Empty; }
        if code == 1 { return Square::Boundary; }
        let kind = match (code - 2) % 6 { 0 => PieceKind::Pawn, 1 => PieceKind::Knight, 2 => PieceKind::Bishop, 3 => PieceKind::Rook, 4 => PieceKind::Queen, _ => PieceKind::King };
        Square::Full(Piece { color: if code < 8 { PieceColor::White } else { PieceColor::Black }, kind })
    }
    fn any_point() -> Point { Point(kani::any(), kani::any()) }
    // axiom_boardstate_clone: the derived Clone of BoardState returns a value equal in every field (all 144 squares symbolic)
    #[kani::proof]
    #[kani::unwind(13)]
    fn axiom_boardstate_clone_holds() {
        let mut board = [[Square::Empty; 12]; 12];
        for r in 0..12 { for c in 0..12 { board[r][c] = any_square(); } }
        let b = BoardState {
            board, to_move: if kani::any() { PieceColor::White } else { PieceColor::Black },
            pawn_double_move: if kani::any() { Some(any_point()) } else { None },
            white_king_location: any_point(), black_king_location: any_point(),
            white_king_side_castle: kani::any(), white_queen_side_castle: kani::any(), black_king_side_castle: kani::any(), black_queen_side_castle: kani::any(),
            order_heuristic: kani::any(), last_move: if kani::any() { Some((any_point(), any_point())) } else { None },
            pawn_promotion: if kani::any() { match any_square() { Square::Full(p) => Some(p), _ => None } } else { None },
            zobrist_key: kani::any(),
        };
        let c = b.clone();
        for r in 0..12 { for k in 0..12 { assert!(c.board[r][k] == b.board[r][k]); } }
        assert!(c.to_move == b.to_move && c.pawn_double_move == b.pawn_double_move);
        assert!(c.white_king_location == b.white_king_location && c.black_king_location == b.black_king_location);
        assert!(c.white_king_side_castle == b.white_king_side_castle && c.white_queen_side_castle == b.white_queen_side_castle);
        assert!(c.black_king_side_castle == b.black_king_side_castle && c.black_queen_side_castle == b.black_queen_side_castle);
        assert!(c.order_heuristic == b.order_heuristic && c.last_move == b.last_move && c.pawn_promotion == b.pawn_promotion && c.zobrist_key == b.zobrist_key);
    }
    // axiom_i8_add_assign_ref: `x += &r` on i8 is defined exactly when x + r is in range, and then yields x + r
    #[kani::proof]
    fn axiom_i8_add_assign_ref_holds() {
        let x: i8 = kani::any(); let r: i8 = kani::any();
        let wide = x as i16 + r as i16;
        kani::assume(wide >= i8::MIN as i16 && wide <= i8::MAX as i16);
        let mut y = x;
        y += &r;
        assert!(y as i16 == wide);
    }
    // assume_specification[i8::abs]: for x != MIN the result is |x|
    #[kani::proof]
    fn axiom_i8_abs_holds() {
        let x: i8 = kani::any();
        kani::assume(x != i8::MIN);
        let a = x.abs();
        assert!(a as i16 == if x < 0 { -(x as i16) } else { x as i16 });
    }
}
