
// ---- appended to the scratch copy only: Kani harness for the `go` token routing (C09, thorough tier, BOUNDED domain) ----
#[cfg(kani)]
mod verif_kani_go {
    use super::*;
    // every `go <key> <value>` line with one of the five clock keywords and a 1-3 digit value (5 x 1110 lines, symbolic):
    // the real parse_go_command puts the value into its own field and leaves every other field at its default
    #[kani::proof]
    #[kani::unwind(12)]
    fn c09_go_single_pair_routing() {
        let k: u8 = kani::any(); kani::assume(k < 5);
        let keys = ["wtime", "btime", "winc", "binc", "movestogo"];
        let d: [u8; 3] = kani::any(); let n: usize = kani::any();
        kani::assume(n >= 1 && n <= 3);
        kani::assume(d[0] <= 9 && d[1] <= 9 && d[2] <= 9);
        let bytes = [b'0' + d[0], b'0' + d[1], b'0' + d[2]];
        let vs = unsafe { std::str::from_utf8_unchecked(&bytes[..n]) };
        let mut val: i128 = 0; let mut i = 0; while i < n { val = val * 10 + d[i] as i128; i += 1; }
        let toks: [&str; 3] = ["go", keys[k as usize], vs];
        let gt = parse_go_command(&toks);
        assert!(gt.wtime == if k == 0 { val } else { 0 });
        assert!(gt.btime == if k == 1 { val } else { 0 });
        assert!(gt.winc == if k == 2 { val } else { 0 });
        assert!(gt.binc == if k == 3 { val } else { 0 });
        assert!(gt.movestogo == if k == 4 { Some(val as u32) } else { None });
    }
}
