
// ---- appended to the scratch copy only: Kani harness for the printed move text (C02 / C04) ----
#[cfg(kani)]
mod verif_kani_print {
    use super::*;
    // for each of the 64 on-board points the Display text is [a-h][1-8] naming that square and parses back to the point
    #[kani::proof]
    #[kani::unwind(8)]
    fn c02_point_text_roundtrip() {
        let r: usize = kani::any(); let c: usize = kani::any();
        kani::assume(r >= 2 && r < 10 && c >= 2 && c < 10);
        let p = Point(r, c);
        let s = p.to_string();
        let b = s.as_bytes();
        assert!(b.len() == 2);
        assert!(b[0] == b'a' + (c - 2) as u8 && b[1] == b'0' + (10 - r) as u8);
        assert!(s.parse::<Point>() == Ok(p));
    }
    // the promotion letters printed after a move are exactly q n b r for the four promotion kinds
    #[kani::proof]
    fn c02_promotion_letters() {
        assert!(PieceKind::Queen.alg() == "q" && PieceKind::Knight.alg() == "n" && PieceKind::Bishop.alg() == "b" && PieceKind::Rook.alg() == "r");
    }
}
