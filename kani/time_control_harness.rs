
// ---- appended to the scratch copy only: Kani harnesses for C09 ----
#[cfg(kani)]
mod verif_kani {
    use super::*;
    use crate::board::PieceColor::*;
    fn any_gt() -> GameTime {
        GameTime { wtime: kani::any(), btime: kani::any(), winc: kani::any(), binc: kani::any(),
                   movestogo: if kani::any() { Some(kani::any()) } else { None } }
    }
    // full i128 / Option<u32> domain, both colours; loop-free, so this is a complete proof of the contract
    #[kani::proof_for_contract(GameTime::calculate_time_slice)]
    fn c09_contract_full_domain() {
        let gt = any_gt();
        let white: bool = kani::any();
        gt.calculate_time_slice(if white { White } else { Black });
    }
    // reachability behind the precondition (vacuity guard): both regimes are inhabited
    #[kani::proof]
    fn c09_cover_regimes() {
        let gt = any_gt();
        if let Some(m) = gt.movestogo { kani::assume(m >= 1); }
        let s = gt.calculate_time_slice(White);
        kani::cover!(gt.wtime > 100 && s > 0);
        kani::cover!(gt.wtime <= 100 && gt.winc > 0 && s > 0);
        kani::cover!(gt.wtime <= 100 && gt.winc <= 0 && s == 0);
    }
    // BOUNDED, quick tier (mover clock 101..=355 ms, movestogo absent or 1..=3 or 31..=33, everything else arbitrary): the plan is within one
    // millisecond of 0.8 * (clock - 100) / mtg -- the small-clock band where a floor or a wrong divisor shows first
    #[kani::proof]
    fn c09_bounded_small_clock() {
        let d: u8 = kani::any(); let m: u8 = kani::any();
        kani::assume((m >= 1 && m <= 3) || (m >= 31 && m <= 33));
        let has: bool = kani::any(); let white: bool = kani::any();
        let w: i128 = 101 + d as i128;
        let other: i128 = kani::any(); let oinc: i128 = kani::any(); let inc: i128 = kani::any();
        let gt = if white { GameTime { wtime: w, btime: other, winc: inc, binc: oinc, movestogo: if has { Some(m as u32) } else { None } } }
                 else { GameTime { btime: w, wtime: other, binc: inc, winc: oinc, movestogo: if has { Some(m as u32) } else { None } } };
        let s = gt.calculate_time_slice(if white { White } else { Black });
        let mtg: i64 = if has { m as i64 } else { 30 };
        assert!(s <= 400);
        assert!((s as i64) * mtg * 10 <= 8 * (w as i64 - 100) + 10 * mtg);
        assert!((s as i64) * mtg * 10 + 10 * mtg >= 8 * (w as i64 - 100));
    }
    // BOUNDED (i16 clock, movestogo absent or 1..=64, everything else arbitrary): the plan is within one
    // millisecond of 0.8 * (clock - 100) / mtg, hence a function of the mover's clock only
    #[kani::proof]
    fn c09_bounded_eighty_percent() {
        let w: i16 = kani::any(); let m: u8 = kani::any();
        kani::assume(m >= 1 && m <= 64);
        let has: bool = kani::any();
        let white: bool = kani::any();
        let other: i128 = kani::any(); let oinc: i128 = kani::any(); let inc: i128 = kani::any();
        let gt = if white { GameTime { wtime: w as i128, btime: other, winc: inc, binc: oinc, movestogo: if has { Some(m as u32) } else { None } } }
                 else { GameTime { btime: w as i128, wtime: other, binc: inc, winc: oinc, movestogo: if has { Some(m as u32) } else { None } } };
        let s = gt.calculate_time_slice(if white { White } else { Black });
        let mtg: i64 = if has { m as i64 } else { 30 };
        if w > 100 {
            assert!(s <= 40000);
            assert!((s as i64) * mtg * 10 <= 8 * (w as i64 - 100) + 10 * mtg);
            assert!((s as i64) * mtg * 10 + 10 * mtg >= 8 * (w as i64 - 100));
        }
    }
}
