
// ---- appended to the scratch copy only: Kani harnesses for C04 (text_facts of contracts/ucimove.py) ----
// Every string of the UCI move grammar [a-h][1-8][a-h][1-8]([qnbr])? (20480 strings, symbolic): the REAL text
// operations make_move relies on decode it to the squares / promotion letter it spells.
#[cfg(kani)]
mod verif_kani_text {
    use super::*;
    struct T { bytes: [u8; 5], len: usize, from: Point, to: Point, promo: u8 }
    const LETTERS: [u8; 5] = [b'q', b'q', b'n', b'b', b'r'];
    fn any_move() -> T {
        let fc: u8 = kani::any(); let fr: u8 = kani::any(); let tc: u8 = kani::any(); let tr: u8 = kani::any();
        kani::assume(fc < 8 && fr < 8 && tc < 8 && tr < 8);
        let promo: u8 = kani::any(); kani::assume(promo < 5); // 0 = none, 1..4 = q n b r
        T { bytes: [b'a' + fc, b'1' + fr, b'a' + tc, b'1' + tr, LETTERS[promo as usize]], len: if promo == 0 { 4 } else { 5 },
            from: Point(BOARD_END - 1 - fr as usize, BOARD_START + fc as usize), to: Point(BOARD_END - 1 - tr as usize, BOARD_START + tc as usize), promo }
    }
    fn text(t: &T) -> &str { unsafe { std::str::from_utf8_unchecked(&t.bytes[..t.len]) } }
    // the R3 / R4 helpers, character for character as in the Verus file (contracts/ucimove.py checks the texts are equal)
    fn __verif_char_at(s: &str, n: usize) -> char { s.chars().nth(n).unwrap() }
    fn __verif_square_at(s: &str, i: usize) -> Point { (s[i..i + 2]).parse().unwrap() }

    // text_square_at(s,0) == tm_from(s), text_square_at(s,2) == tm_to(s), both on the board  (the R4 helper expressions)
    #[kani::proof]
    #[kani::unwind(7)]
    fn c04_text_squares() {
        let t = any_move(); let s = text(&t);
        let p0: Point = __verif_square_at(s, 0);
        let p1: Point = __verif_square_at(s, 2);
        assert!(p0 == t.from && p1 == t.to);
        assert!(p0.0 >= 2 && p0.0 < 10 && p0.1 >= 2 && p0.1 < 10 && p1.0 >= 2 && p1.0 < 10 && p1.1 >= 2 && p1.1 < 10);
    }
    // len == 5 <=> promotion letter present; chars().nth(4) is that letter   (the R3 helper expression)
    #[kani::proof]
    #[kani::unwind(7)]
    fn c04_text_len_and_letter() {
        let t = any_move(); let s = text(&t);
        assert!((s.len() == 5) == (t.promo != 0));
        if t.promo != 0 { assert!(__verif_char_at(s, 4) == LETTERS[t.promo as usize] as char); }
    }
    // contains("a8") <=> from == a8 || to == a8, and likewise for the other three corners (one harness per corner:
    // str::contains is the expensive operation for CBMC)
    #[kani::proof]
    #[kani::unwind(7)]
    fn c04_text_corner_a8() { let t = any_move(); let s = text(&t); let c = Point(2, 2); assert!(s.contains("a8") == (t.from == c || t.to == c)); }
    #[kani::proof]
    #[kani::unwind(7)]
    fn c04_text_corner_h8() { let t = any_move(); let s = text(&t); let c = Point(2, 9); assert!(s.contains("h8") == (t.from == c || t.to == c)); }
    #[kani::proof]
    #[kani::unwind(7)]
    fn c04_text_corner_a1() { let t = any_move(); let s = text(&t); let c = Point(9, 2); assert!(s.contains("a1") == (t.from == c || t.to == c)); }
    #[kani::proof]
    #[kani::unwind(7)]
    fn c04_text_corner_h1() { let t = any_move(); let s = text(&t); let c = Point(9, 9); assert!(s.contains("h1") == (t.from == c || t.to == c)); }
    // s == "e1g1" <=> from e1, to g1, no promotion; likewise e1c1, e8g8, e8c8
    #[kani::proof]
    #[kani::unwind(7)]
    fn c04_text_castle_strings() {
        let t = any_move(); let s = text(&t);
        assert!((s == WHITE_KING_SIDE_CASTLE_STRING) == (t.from == Point(9, 6) && t.to == Point(9, 8) && t.promo == 0));
        assert!((s == WHITE_QUEEN_SIDE_CASTLE_STRING) == (t.from == Point(9, 6) && t.to == Point(9, 4) && t.promo == 0));
        assert!((s == BLACK_KING_SIDE_CASTLE_STRING) == (t.from == Point(2, 6) && t.to == Point(2, 8) && t.promo == 0));
        assert!((s == BLACK_QUEEN_SIDE_CASTLE_STRING) == (t.from == Point(2, 6) && t.to == Point(2, 4) && t.promo == 0));
    }
}
