
// ---- appended to the scratch copy only: Kani harness for C15 (the en-passant-square parser) ----
#[cfg(kani)]
mod verif_kani {
    use super::*;
    // every byte string of length <= 4 that is valid UTF-8 (length 2 is the only one that gets past the length test;
    // 0, 1, 3 and 4 exercise that test): never panics, Ok(p) only for [a-h][1-8] and then p is that square, and
    // every [a-h][1-8] is accepted.  Loops are bounded by the input length (unwinding assertions on).
    #[kani::proof]
    #[kani::unwind(6)]
    fn c15_point_from_str_total_and_faithful() {
        let bytes: [u8; 4] = kani::any();
        let len: usize = kani::any();
        kani::assume(len <= 4);
        if let Ok(s) = std::str::from_utf8(&bytes[..len]) {
            let r: Result<Point, _> = s.parse::<Point>();
            let well_formed = len == 2 && bytes[0] >= b'a' && bytes[0] <= b'h' && bytes[1] >= b'1' && bytes[1] <= b'8';
            match r {
                Ok(p) => {
                    assert!(well_formed);
                    assert!(p.0 == 10 - (bytes[1] - b'0') as usize && p.1 == (bytes[0] - b'a') as usize + 2);
                }
                Err(_) => assert!(!well_formed),
            }
        }
    }
}
