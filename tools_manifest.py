#!/usr/bin/env python3
"""Regenerates MANIFEST.json from contracts/props.py (claimed) + the fixed not-applicable list."""
import json, os, sys
HERE = os.path.dirname(os.path.abspath(__file__))
sys.path.insert(0, HERE)
from contracts import props as P
from contracts import manifest_text as T

checks = []
for pid in sorted(P.PROPS):
    t = T.CHECKS[pid]
    checks.append({
        'property_id': pid,
        'quick_cmd': './check %s --tier quick' % pid,
        'thorough_cmd': './check %s --tier thorough' % pid,
        'evidence_file': 'evidence/%s.json' % pid,
        'replay_cmd_template': './check %s --replay {path}' % pid,
        'engine': t.get('engine', 'verus-contracts'),
        'level_claimed': {'category': 'proof', 'text': t['text'], 'design_ref': t['design_ref']},
        'level_note': t['note'],
        'technique': t['technique'],
    })
na = [{'property_id': k, 'reason': v} for k, v in sorted(T.NOT_APPLICABLE.items()) if k not in P.PROPS]
m = {
    'version': 1,
    'setup_cmd': './setup.sh',
    'hooks': {
        'guard': 'none',
        'enable': 'n/a: no source hooks; contracts, cfg(kani) modules and harnesses are added to scratch copies generated from /repo on every run',
        'baseline_off_cmd': 'cd /repo && cargo test --workspace --no-fail-fast --offline',
        'source_commits': T.SOURCE_COMMITS,
        'add_only': True,
    },
    'engines': T.ENGINES,
    'checks': checks,
    'not_applicable': na,
    'notes': T.NOTES,
}
json.dump(m, open(os.path.join(HERE, 'MANIFEST.json'), 'w'), indent=1)
print('MANIFEST.json: %d checks, %d not applicable' % (len(checks), len(na)))
