#!/bin/sh
# Tool self-test only: nothing is fetched or built ahead of time (every check rebuilds from /repo's working tree).
set -e
cd "$(dirname "$0")"
export CARGO_NET_OFFLINE=true
d=$(mktemp -d)
trap 'rm -rf "$d"' EXIT
cat > "$d/t.rs" <<'EOT'
use vstd::prelude::*;
verus! { fn id(x: u8) -> (r: u8) ensures r == x { x } }
fn main() {}
EOT
(cd "$d" && verus t.rs > /dev/null)
python3 -c 'import json,sys; json.load(open("MANIFEST.json"))'
cargo kani --version > /dev/null 2>&1 || echo "warning: cargo kani not available"
echo setup ok
