"""Layer 1 -- attack detection (C06; used by C01/C02/C13/C04).

Units: PieceColor::opposite, Piece::{pawn,knight,bishop,rook,queen,king}, Square::is_empty,
<Square as PartialEq<Piece>>::eq, is_check_cords, is_check.
The spec functions are written from the rules of movement, not from the code.
"""

def types(g):
    return '\n'.join([
        g.typ('board', 'enum', 'Square'),
        g.typ('board', 'struct', 'Piece'),
        g.typ('board', 'enum', 'PieceColor'),
        g.typ('board', 'enum', 'PieceKind'),
        'pub use PieceColor::*;\npub use PieceKind::*;',
        g.const('board', 'BOARD_START'),
        g.const('board', 'BOARD_END'),
        g.typ('board', 'struct', 'Point'),
        g.typ('board', 'struct', 'BoardState'),
        g.const('move_generation', 'KNIGHT_CORDS', expect_text='[ (1, 2), (1, -2), (2, 1), (2, -1), (-1, 2), (-1, -2), (-2, -1), (-2, 1), ]'),
    ])

SPEC = r'''
// ---- trusted glue: meaning of derived == on the plain data types, i8 += &i8, i8::abs ----
impl PartialEqSpecImpl for PieceColor { open spec fn obeys_eq_spec() -> bool { true } open spec fn eq_spec(&self, o: &PieceColor) -> bool { *self == *o } }
impl PartialEqSpecImpl for PieceKind { open spec fn obeys_eq_spec() -> bool { true } open spec fn eq_spec(&self, o: &PieceKind) -> bool { *self == *o } }
impl PartialEqSpecImpl for Piece { open spec fn obeys_eq_spec() -> bool { true } open spec fn eq_spec(&self, o: &Piece) -> bool { *self == *o } }
impl PartialEqSpecImpl for Square { open spec fn obeys_eq_spec() -> bool { true } open spec fn eq_spec(&self, o: &Square) -> bool { *self == *o } }
impl PartialEqSpecImpl for Point { open spec fn obeys_eq_spec() -> bool { true } open spec fn eq_spec(&self, o: &Point) -> bool { *self == *o } }
impl PartialEqSpecImpl<Piece> for Square { open spec fn obeys_eq_spec() -> bool { true } open spec fn eq_spec(&self, o: &Piece) -> bool { *self == Square::Full(*o) } }

#[verifier::external_body]
pub proof fn axiom_i8_add_assign_ref()
    ensures
        <i8 as AddAssignSpec<&i8>>::obeys_add_assign_spec(),
        forall|x: i8, r: &i8| #[trigger] <i8 as AddAssignSpec<&i8>>::add_assign_req(&x, r) == (i8::MIN <= x + *r <= i8::MAX),
        forall|x: i8, r: &i8| #[trigger] <i8 as AddAssignSpec<&i8>>::add_assign_spec(&x, r) == (x + *r) as i8,
{}
pub assume_specification[ i8::abs ](x: i8) -> (r: i8)
    requires x != i8::MIN
    ensures r == (if x < 0 { -x } else { x as int });

// ---- the rules of chess, as far as C06 needs them ----
pub open spec fn on_board(r: int, c: int) -> bool { 2 <= r < 10 && 2 <= c < 10 }
pub open spec fn in_arr(r: int, c: int) -> bool { 0 <= r < 12 && 0 <= c < 12 }
pub open spec fn at(b: [[Square; 12]; 12], r: int, c: int) -> Square { if in_arr(r, c) { b[r][c] } else { Square::Boundary } }
pub open spec fn opp(c: PieceColor) -> PieceColor { if c == White { Black } else { White } }
pub open spec fn abs(x: int) -> int { if x < 0 { -x } else { x } }

// representation invariant of the mailbox: exactly the two outer rings are Boundary
pub open spec fn wf(b: [[Square; 12]; 12]) -> bool {
    forall|i: int, j: int| in_arr(i, j) ==> ((#[trigger] at(b, i, j) == Square::Boundary) <==> !on_board(i, j))
}
// squares at steps 1..n-1 from (r,c) in direction (dr,dc) are empty
pub open spec fn clear(b: [[Square; 12]; 12], r: int, c: int, dr: int, dc: int, n: int) -> bool {
    forall|k: int| 1 <= k < n ==> #[trigger] at(b, r + k * dr, c + k * dc) == Square::Empty
}
// piece p stands n steps away along (dr,dc) with nothing in between  ("sliders stopped by the first piece in their way")
pub open spec fn ray_hits(b: [[Square; 12]; 12], r: int, c: int, dr: int, dc: int, p: Piece) -> bool {
    exists|n: int| 1 <= n < 8 && #[trigger] clear(b, r, c, dr, dc, n) && on_board(r + n * dr, c + n * dc)
        && at(b, r + n * dr, c + n * dc) == Square::Full(p)
}
pub open spec fn rook_dirs() -> Seq<(i8, i8)> { seq![(1i8, 0i8), (-1i8, 0i8), (0i8, 1i8), (0i8, -1i8)] }
pub open spec fn bishop_dirs() -> Seq<(i8, i8)> { seq![(1i8, -1i8), (1i8, 1i8), (-1i8, 1i8), (-1i8, -1i8)] }
pub open spec fn knight_dirs() -> Seq<(i8, i8)> { seq![(1i8, 2i8), (1i8, -2i8), (2i8, 1i8), (2i8, -1i8), (-1i8, 2i8), (-1i8, -2i8), (-2i8, -1i8), (-2i8, 1i8)] }

pub open spec fn line_hits(b: [[Square; 12]; 12], by: PieceColor, r: int, c: int, dirs: Seq<(i8, i8)>, kind: PieceKind, d: int) -> bool {
    ray_hits(b, r, c, dirs[d].0 as int, dirs[d].1 as int, Piece { kind: kind, color: by })
    || ray_hits(b, r, c, dirs[d].0 as int, dirs[d].1 as int, Piece { kind: Queen, color: by })
}
pub open spec fn line_attack_upto(b: [[Square; 12]; 12], by: PieceColor, r: int, c: int, dirs: Seq<(i8, i8)>, kind: PieceKind, upto: int) -> bool {
    exists|d: int| 0 <= d < upto && #[trigger] line_hits(b, by, r, c, dirs, kind, d)
}
pub open spec fn knight_hits(b: [[Square; 12]; 12], by: PieceColor, r: int, c: int, d: int) -> bool {
    at(b, r + knight_dirs()[d].0, c + knight_dirs()[d].1) == Square::Full(Piece { kind: Knight, color: by })
}
pub open spec fn knight_attack_upto(b: [[Square; 12]; 12], by: PieceColor, r: int, c: int, upto: int) -> bool {
    exists|d: int| 0 <= d < upto && #[trigger] knight_hits(b, by, r, c, d)
}
// a pawn of colour `by` attacks diagonally forward: white pawns move towards row 2, black pawns towards row 9
pub open spec fn pawn_attack(b: [[Square; 12]; 12], by: PieceColor, r: int, c: int) -> bool {
    let pr = if by == White { r + 1 } else { r - 1 };
    at(b, pr, c - 1) == Square::Full(Piece { kind: Pawn, color: by }) || at(b, pr, c + 1) == Square::Full(Piece { kind: Pawn, color: by })
}
pub open spec fn king_attack(b: [[Square; 12]; 12], by: PieceColor, r: int, c: int) -> bool {
    exists|kr: int, kc: int| on_board(kr, kc) && #[trigger] at(b, kr, kc) == Square::Full(Piece { kind: King, color: by })
        && abs(kr - r) <= 1 && abs(kc - c) <= 1 && !(kr == r && kc == c)
}
// square (r,c) is attacked by some piece of colour `by`
#[verifier::opaque]
pub open spec fn attacked_by(b: [[Square; 12]; 12], by: PieceColor, r: int, c: int) -> bool {
    line_attack_upto(b, by, r, c, rook_dirs(), Rook, 4)
    || line_attack_upto(b, by, r, c, bishop_dirs(), Bishop, 4)
    || knight_attack_upto(b, by, r, c, 8)
    || pawn_attack(b, by, r, c)
    || king_attack(b, by, r, c)
}
pub open spec fn king_sq(b: &BoardState, color: PieceColor) -> Point { if color == White { b.white_king_location } else { b.black_king_location } }
// exactly one king per side and the cache points at it
#[verifier::opaque]
pub open spec fn kings_ok(b: &BoardState) -> bool {
    on_board(b.white_king_location.0 as int, b.white_king_location.1 as int)
    && on_board(b.black_king_location.0 as int, b.black_king_location.1 as int)
    && forall|i: int, j: int| on_board(i, j) ==>
        ((#[trigger] at(b.board, i, j) == Square::Full(Piece { kind: King, color: White })) <==> (i == b.white_king_location.0 && j == b.white_king_location.1))
        && ((at(b.board, i, j) == Square::Full(Piece { kind: King, color: Black })) <==> (i == b.black_king_location.0 && j == b.black_king_location.1))
}
pub proof fn lemma_mul_unit(n: int, d: int)
    requires -2 <= d <= 2
    ensures d == 1 ==> n * d == n, d == -1 ==> n * d == -n, d == 0 ==> n * d == 0,
{
    assert(d == 1 ==> n * d == n) by (nonlinear_arith);
    assert(d == -1 ==> n * d == -n) by (nonlinear_arith);
    assert(d == 0 ==> n * d == 0) by (nonlinear_arith);
}
'''

def ray_loop(dirs, kind, attacker):
    """annotations for one of the two ray-scan for-loops (outer) + its inner while"""
    outer = {
        'iter': 'it',
        'invariant': [
            'wf(board.board)', 'on_board(square_cords.0 as int, square_cords.1 as int)',
            'attacking_color == opp(color)',
            'attacking_rook == (Piece { kind: Rook, color: opp(color) })',
            'attacking_queen == (Piece { kind: Queen, color: opp(color) })',
            'attacking_bishop == (Piece { kind: Bishop, color: opp(color) })',
            'attacking_knight == (Piece { kind: Knight, color: opp(color) })',
            'attacking_pawn == (Piece { kind: Pawn, color: opp(color) })',
            '!line_attack_upto(board.board, opp(color), square_cords.0 as int, square_cords.1 as int, %s, %s, it.index@)' % (dirs, kind),
        ] + ([] if kind == 'Rook' else ['!line_attack_upto(board.board, opp(color), square_cords.0 as int, square_cords.1 as int, rook_dirs(), Rook, 4)']),
        'body_start': 'let ghost mut n: int = 1; proof { assert(%s[it.index@] == (*r, *c)); }' % dirs,
    }
    inner = {
        'invariant': [
            'wf(board.board)', 'on_board(square_cords.0 as int, square_cords.1 as int)',
            '-1 <= *r <= 1', '-1 <= *c <= 1', '(*r != 0 || *c != 0)',
            '1 <= n <= 8', 'on_board(row as int, col as int) ==> n <= 7',
            'row == square_cords.0 + n * *r', 'col == square_cords.1 + n * *c',
            'in_arr(row as int, col as int)',
            'square == at(board.board, row as int, col as int)',
            'clear(board.board, square_cords.0 as int, square_cords.1 as int, *r as int, *c as int, n)',
        ],
        'decreases': '100 - n',
        'body_start': '''proof {
                axiom_i8_add_assign_ref();
                assert(on_board(row as int, col as int));
                lemma_mul_unit(n, *r as int); lemma_mul_unit(n, *c as int);
                lemma_mul_unit(n + 1, *r as int); lemma_mul_unit(n + 1, *c as int);
                n = n + 1;
            }''',
        'after': '''proof {
            let sr = square_cords.0 as int; let sc = square_cords.1 as int;
            lemma_mul_unit(n, *r as int); lemma_mul_unit(n, *c as int);
            if square == Square::Full(%(att)s) || square == Square::Full(attacking_queen) {
                assert(on_board(row as int, col as int));
                assert(at(board.board, sr + n * *r, sc + n * *c) == square);
                assert(line_hits(board.board, opp(color), sr, sc, %(dirs)s, %(kind)s, it.index@));
                assert(line_attack_upto(board.board, opp(color), sr, sc, %(dirs)s, %(kind)s, 4));
            } else {
                assert forall|p: Piece| (p == %(att)s || p == attacking_queen) implies !ray_hits(board.board, sr, sc, *r as int, *c as int, p) by {
                    assert forall|m: int| 1 <= m < 8 && #[trigger] clear(board.board, sr, sc, *r as int, *c as int, m) && on_board(sr + m * *r, sc + m * *c)
                        implies at(board.board, sr + m * *r, sc + m * *c) != Square::Full(p) by {
                        if m < n { assert(at(board.board, sr + m * *r, sc + m * *c) == Square::Empty); }
                        else if m > n { assert(at(board.board, sr + n * *r, sc + n * *c) == Square::Empty); }
                    }
                }
                assert(!line_hits(board.board, opp(color), sr, sc, %(dirs)s, %(kind)s, it.index@));
            }
        }''' % {'att': attacker, 'dirs': dirs, 'kind': kind},
    }
    return outer, inner

o0, i0 = ray_loop('rook_dirs()', 'Rook', 'attacking_rook')
o1, i1 = ray_loop('bishop_dirs()', 'Bishop', 'attacking_bishop')
knight_loop = {
    'iter': 'it',
    'invariant': [
        'wf(board.board)', 'on_board(square_cords.0 as int, square_cords.1 as int)',
        'attacking_color == opp(color)',
        'attacking_knight == (Piece { kind: Knight, color: opp(color) })',
        'attacking_pawn == (Piece { kind: Pawn, color: opp(color) })',
        '!line_attack_upto(board.board, opp(color), square_cords.0 as int, square_cords.1 as int, rook_dirs(), Rook, 4)',
        '!line_attack_upto(board.board, opp(color), square_cords.0 as int, square_cords.1 as int, bishop_dirs(), Bishop, 4)',
        '!knight_attack_upto(board.board, opp(color), square_cords.0 as int, square_cords.1 as int, it.index@)',
    ],
    'body_start': 'proof { assert(knight_dirs()[it.index@] == (*r, *c)); }',
    'body_end': 'proof { assert(!knight_hits(board.board, opp(color), square_cords.0 as int, square_cords.1 as int, it.index@)); }',
}
ATT = 'attacked_by(board.board, opp(color), square_cords.0 as int, square_cords.1 as int)'
KING_HINT = r"""proof {
        reveal(attacked_by);
        let r = square_cords.0 as int; let c = square_cords.1 as int;
        let ek = king_sq(board, opp(color)); let ok = king_sq(board, color);
        assert(at(board.board, ek.0 as int, ek.1 as int) == Square::Full(Piece { kind: King, color: opp(color) }));
        assert(at(board.board, ok.0 as int, ok.1 as int) == Square::Full(Piece { kind: King, color: color }));
        let adj = abs(ek.0 - r) <= 1 && abs(ek.1 - c) <= 1 && !(ek.0 == r && ek.1 == c);
        assert(king_attack(board.board, opp(color), r, c) == adj) by {
            if adj { assert(on_board(ek.0 as int, ek.1 as int) && at(board.board, ek.0 as int, ek.1 as int) == Square::Full(Piece { kind: King, color: opp(color) })); }
        }
    }"""
ANN_CORDS = {
    'ret': 'res',
    'requires': ['wf(board.board)', 'kings_ok(board)', 'on_board(square_cords.0 as int, square_cords.1 as int)'],
    'ensures': [
        # C06 (statement): asked about a side's own king square, the answer is "that square is attacked by the other side"
        # (kept in the profiles of the properties whose units call is_check; an own obligation of C06 / C01 / C13 only)
        '@~C06,C01,C13|@C06,C02,C13,C04,C05| square_cords == king_sq(board, color) ==> res == ' + ATT,
        # C01 (statement): castling squares are probed too -- the answer must be right for every square the enemy king is
        # not standing on, "including one attacked by the enemy king"
        '@C01| square_cords != king_sq(board, opp(color)) ==> res == ' + ATT,
    ],
    'body_start': 'proof { reveal(kings_ok); reveal(attacked_by); }',
    'loops': {0: o0, 1: i0, 2: o1, 3: i1, 4: knight_loop},
    'before_return': {
        0: 'proof { reveal(attacked_by); }',
        1: 'proof { reveal(attacked_by); }',
        2: 'proof { reveal(attacked_by); assert(knight_hits(board.board, opp(color), square_cords.0 as int, square_cords.1 as int, it.index@)); }',
        3: 'proof { reveal(attacked_by); }',
    },
    'before_text': [('// Check from king', 0, KING_HINT)],
    'expect': {'loops': ['for', 'while', 'for', 'while', 'for'], 'returns': 4, 'contains': ['&[(1, 0), (-1, 0), (0, 1), (0, -1)]', '&[(1, -1), (1, 1), (-1, 1), (-1, -1)]', '&KNIGHT_CORDS', '// Check from king']},
}
ANN_IS_CHECK = {
    'ret': 'res',
    'requires': ['wf(board.board)', 'kings_ok(board)'],
    # C06, straight from the property statement
    'ensures': ['res == attacked_by(board.board, opp(color), king_sq(board, color).0 as int, king_sq(board, color).1 as int)'],
    'body_start': '''proof { reveal(kings_ok);
        let ok = king_sq(board, color); let ek = king_sq(board, opp(color));
        assert(at(board.board, ok.0 as int, ok.1 as int) == Square::Full(Piece { kind: King, color: color }));
        assert(at(board.board, ek.0 as int, ek.1 as int) == Square::Full(Piece { kind: King, color: opp(color) }));
    }''',
    'expect': {'loops': []},
}


def simple(ens):
    return {'ret': 'res', 'ensures': ens}

P_ATTACK = ('C06', 'C01', 'C02', 'C13', 'C04')
OWN_ATTACK = ('C06', 'C01', 'C13')   # for C02/C04/C05 a wrong attack test is a failed support obligation, not their violation

def build(g):
    g.add(types(g), SPEC)
    g.add('impl PieceColor {', g.fn('board', 'opposite', simple(['res == opp(self)']), impl='PieceColor', qual='PieceColor::opposite', props=P_ATTACK, own=OWN_ATTACK), '}')
    g.add('impl Piece {')
    for k in ['pawn', 'knight', 'bishop', 'rook', 'queen', 'king']:
        g.add(g.fn('board', k, simple(['res == (Piece { kind: %s, color })' % k.capitalize()]), impl='Piece', qual='Piece::' + k, props=P_ATTACK, own=OWN_ATTACK))
    g.add('}')
    g.add('impl Square {', g.fn('board', 'is_empty', simple(['res == (self == Square::Empty)']), impl='Square', qual='Square::is_empty', props=P_ATTACK, own=OWN_ATTACK), '}')
    g.add('impl PartialEq<Piece> for Square {', g.fn('board', 'eq', None, impl=r'PartialEq<Piece>\s+for\s+Square', qual='Square::eq', props=P_ATTACK, own=OWN_ATTACK), '}')
    g.add(g.fn('move_generation', 'is_check_cords', ANN_CORDS, props=P_ATTACK, own=OWN_ATTACK))
    g.add(g.fn('move_generation', 'is_check', ANN_IS_CHECK, props=P_ATTACK, own=OWN_ATTACK))
