"""Layer 3 -- the rules of chess as far as move generation needs them (C01/C02/C13/C04).

Everything here is specification (spec fn / proof fn): the position after a move, what a pseudo-legal target of each
piece kind is, when castling and en passant are allowed, what a legal position and a legal move are.  Written from the
FIDE laws and the property statements, not from the engine's code.
Row 2 is rank 8, row 9 is rank 1; column 2 is file a, column 9 is file h.
"""
SPEC3 = r'''
#[verifier::external_body]
pub broadcast proof fn axiom_boardstate_clone(b: &BoardState, r: BoardState)
    ensures #[trigger] call_ensures(<BoardState as Clone>::clone, (b,), r) ==> r == *b
{}

// ---------- rules: the position after a move ----------
pub open spec fn piece_on(b: &BoardState, r: int, c: int) -> Piece {
    match at(b.board, r, c) { Square::Full(p) => p, _ => Piece { kind: Pawn, color: White } }
}
pub open spec fn is_ep_capture(b: &BoardState, fr: int, fc: int, tr: int, tc: int) -> bool {
    piece_on(b, fr, fc).kind == Pawn && fc != tc && at(b.board, tr, tc) == Square::Empty
}
pub open spec fn after_board(b: &BoardState, fr: int, fc: int, tr: int, tc: int, promo: Option<Piece>) -> [[Square; 12]; 12] {
    let p = piece_on(b, fr, fc);
    let placed = match promo { Some(q) => q, None => p };
    let b1 = upd2(upd2(b.board, fr, fc, Square::Empty), tr, tc, Square::Full(placed));
    if is_ep_capture(b, fr, fc, tr, tc) { upd2(b1, fr, tc, Square::Empty) } else { b1 }
}
pub open spec fn after_ep_target(b: &BoardState, fr: int, fc: int, tr: int, tc: int) -> Option<Point> {
    if piece_on(b, fr, fc).kind == Pawn && abs(tr - fr) == 2 { Some(Point(((fr + tr) / 2) as usize, fc as usize)) } else { None }
}
pub open spec fn corner(t: CastlingType) -> (int, int) {
    match t {
        CastlingType::WhiteKingSide => (9int, 9int), CastlingType::WhiteQueenSide => (9int, 2int),
        CastlingType::BlackKingSide => (2int, 9int), CastlingType::BlackQueenSide => (2int, 2int),
    }
}
pub open spec fn right_color(t: CastlingType) -> PieceColor {
    match t { CastlingType::WhiteKingSide => White, CastlingType::WhiteQueenSide => White, _ => Black }
}
// a right survives unless its king moves, its rook leaves the corner, or something lands on the corner
pub open spec fn after_right(b: &BoardState, t: CastlingType, fr: int, fc: int, tr: int, tc: int) -> bool {
    right(b, t)
    && !(piece_on(b, fr, fc) == Piece { kind: King, color: right_color(t) })
    && !((fr, fc) == corner(t)) && !((tr, tc) == corner(t))
}
// castling rights only with king and rook on their home squares
pub open spec fn rights_ok(b: &BoardState) -> bool {
    forall|t: CastlingType| #[trigger] right(b, t) ==>
        at(b.board, corner(t).0, corner(t).1) == Square::Full(Piece { kind: Rook, color: right_color(t) })
        && at(b.board, if right_color(t) == White { 9int } else { 2int }, 6) == Square::Full(Piece { kind: King, color: right_color(t) })
}
pub open spec fn promo_ok(b: &BoardState, fr: int, fc: int, tr: int, promo: Option<Piece>) -> bool {
    let p = piece_on(b, fr, fc);
    let promotes = p.kind == Pawn && (if p.color == White { tr == 2 } else { tr == 9 });
    match promo {
        Some(q) => promotes && q.color == p.color && (q.kind == Queen || q.kind == Knight || q.kind == Bishop || q.kind == Rook),
        None => !promotes,
    }
}
// the POSITION after moving (fr,fc)->(tr,tc) in b with promotion choice `promo`: placement, side to move, en-passant target,
// both king squares, all four castling rights.  Shared by the generator (C02) and the text applier (C04).
pub open spec fn pos_after(b: &BoardState, s: &BoardState, fr: int, fc: int, tr: int, tc: int, promo: Option<Piece>) -> bool {
    let p = piece_on(b, fr, fc);
    &&& s.board == after_board(b, fr, fc, tr, tc, promo)
    &&& s.to_move == opp(b.to_move)
    &&& s.pawn_double_move == after_ep_target(b, fr, fc, tr, tc)
    &&& s.white_king_location == (if p == (Piece { kind: King, color: White }) { Point(tr as usize, tc as usize) } else { b.white_king_location })
    &&& s.black_king_location == (if p == (Piece { kind: King, color: Black }) { Point(tr as usize, tc as usize) } else { b.black_king_location })
    &&& s.white_king_side_castle == after_right(b, CastlingType::WhiteKingSide, fr, fc, tr, tc)
    &&& s.white_queen_side_castle == after_right(b, CastlingType::WhiteQueenSide, fr, fc, tr, tc)
    &&& s.black_king_side_castle == after_right(b, CastlingType::BlackKingSide, fr, fc, tr, tc)
    &&& s.black_queen_side_castle == after_right(b, CastlingType::BlackQueenSide, fr, fc, tr, tc)
}
// s is exactly the position after moving (fr,fc)->(tr,tc) in b, promoting to s.pawn_promotion, and its descriptor names that
// move and nothing else (C02); order_heuristic is a search hint and is not part of the position
pub open spec fn succ_ok(b: &BoardState, s: &BoardState, fr: int, fc: int, tr: int, tc: int) -> bool {
    &&& pos_after(b, s, fr, fc, tr, tc, s.pawn_promotion)
    &&& s.last_move == Some((Point(fr as usize, fc as usize), Point(tr as usize, tc as usize)))
    &&& promo_ok(b, fr, fc, tr, s.pawn_promotion)
}
pub open spec fn ep_in_range(b: &BoardState) -> bool {
    match b.pawn_double_move { Some(p) => on_board(p.0 as int, p.1 as int), None => true }
}
// what a non-castling, non-en-passant target of the piece on (fr,fc) must satisfy for the successor to be well formed
pub open spec fn target_ok(b: &BoardState, fr: int, fc: int, t: Point) -> bool {
    on_board(t.0 as int, t.1 as int) && !(t.0 == fr && t.1 == fc)
    && (match at(b.board, t.0 as int, t.1 as int) { Square::Full(q) => q.color != b.to_move && q.kind != King, _ => true })
    // pawns move straight onto empty squares and diagonally onto occupied ones (en passant is handled elsewhere)
    && (piece_on(b, fr, fc).kind == Pawn ==> ((t.1 == fc) <==> at(b.board, t.0 as int, t.1 as int) == Square::Empty))
    && (piece_on(b, fr, fc).kind == Pawn ==> {
        let fwd = if piece_on(b, fr, fc).color == White { -1int } else { 1int };
        t.0 - fr == fwd || (t.0 - fr == 2 * fwd && t.1 == fc && fr == (if fwd == -1 { 8int } else { 3int }))
    })
}
'''

SPEC_T = r'''
pub open spec fn land_ok(bd: [[Square; 12]; 12], color: PieceColor, r: int, c: int, mode: MoveGenerationMode) -> bool {
    match at(bd, r, c) { Square::Empty => mode == MoveGenerationMode::AllMoves, Square::Full(p) => p.color != color, Square::Boundary => false }
}
pub open spec fn from_offset(t: Point, fr: int, fc: int, dirs: Seq<(i8, i8)>, d: int) -> bool {
    dirs[d].0 + fr == t.0 && dirs[d].1 + fc == t.1
}
pub open spec fn knight_target_upto(bd: [[Square; 12]; 12], color: PieceColor, fr: int, fc: int, t: Point, mode: MoveGenerationMode, upto: int) -> bool {
    exists|d: int| 0 <= d < upto && #[trigger] from_offset(t, fr, fc, knight_dirs(), d) && land_ok(bd, color, t.0 as int, t.1 as int, mode)
}
pub open spec fn knight_target(bd: [[Square; 12]; 12], color: PieceColor, fr: int, fc: int, t: Point, mode: MoveGenerationMode) -> bool {
    knight_target_upto(bd, color, fr, fc, t, mode, 8)
}
pub open spec fn has_from(v: Seq<Point>, lo: int, t: Point) -> bool {
    exists|i: int| lo <= i < v.len() && #[trigger] v[i] == t
}
// slider: t is n steps along one of dirs, everything in between empty, landing square acceptable
pub open spec fn slide_hits(bd: [[Square; 12]; 12], color: PieceColor, fr: int, fc: int, t: Point, mode: MoveGenerationMode, dr: int, dc: int, n: int) -> bool {
    1 <= n < 8 && t.0 == fr + n * dr && t.1 == fc + n * dc && clear(bd, fr, fc, dr, dc, n) && land_ok(bd, color, t.0 as int, t.1 as int, mode)
}
pub open spec fn slider_target(bd: [[Square; 12]; 12], color: PieceColor, fr: int, fc: int, t: Point, mode: MoveGenerationMode, dirs: Seq<(i8, i8)>, upto: int) -> bool {
    exists|d: int, n: int| 0 <= d < upto && #[trigger] slide_hits(bd, color, fr, fc, t, mode, dirs[d].0 as int, dirs[d].1 as int, n)
}
// the part of a target list appended by one generator call
pub open spec fn appended(old_v: Seq<Point>, new_v: Seq<Point>) -> bool {
    new_v.len() >= old_v.len() && forall|i: int| 0 <= i < old_v.len() ==> new_v[i] == old_v[i]
}
pub open spec fn distinct_from(v: Seq<Point>, lo: int) -> bool {
    forall|i: int, j: int| lo <= i < j < v.len() ==> v[i] != v[j]
}
'''
SPEC_PK = r"""
pub open spec fn enemy_at(bd: [[Square; 12]; 12], color: PieceColor, r: int, c: int) -> bool {
    at(bd, r, c) matches Square::Full(p) && p.color != color
}
// FIDE 3.7: pawn moves (en passant and promotion are handled by the caller)
pub open spec fn pawn_target(bd: [[Square; 12]; 12], color: PieceColor, fr: int, fc: int, t: Point, mode: MoveGenerationMode) -> bool {
    let fwd = if color == White { -1int } else { 1int };
    let home = if color == White { 8int } else { 3int };
    let all = mode == MoveGenerationMode::AllMoves;
    ||| (t.0 == fr + fwd && abs(t.1 - fc) == 1 && enemy_at(bd, color, t.0 as int, t.1 as int))
    ||| (all && t.0 == fr + fwd && t.1 == fc && at(bd, t.0 as int, t.1 as int) == Square::Empty)
    ||| (all && fr == home && t.0 == fr + 2 * fwd && t.1 == fc && at(bd, fr + fwd, fc) == Square::Empty && at(bd, t.0 as int, t.1 as int) == Square::Empty)
}
// FIDE 3.8: the king steps to any adjoining square (castling is handled elsewhere)
pub open spec fn king_target(bd: [[Square; 12]; 12], color: PieceColor, fr: int, fc: int, t: Point, mode: MoveGenerationMode) -> bool {
    abs(t.0 - fr) <= 1 && abs(t.1 - fc) <= 1 && !(t.0 == fr && t.1 == fc) && land_ok(bd, color, t.0 as int, t.1 as int, mode)
}
"""

SPEC_RULES = r"""
// the queen combines the power of a rook and a bishop (FIDE 3.4)
pub open spec fn queen_target(bd: [[Square; 12]; 12], color: PieceColor, fr: int, fc: int, t: Point, mode: MoveGenerationMode) -> bool {
    slider_target(bd, color, fr, fc, t, mode, rook_dirs(), 4) || slider_target(bd, color, fr, fc, t, mode, bishop_dirs(), 4)
}
// ---- what get_moves must produce, per piece kind (FIDE 3.2-3.8, without castling and en passant) ----
pub open spec fn pseudo_target_def(b: &BoardState, fr: int, fc: int, t: Point, mode: MoveGenerationMode) -> bool {
    match at(b.board, fr, fc) {
        Square::Full(p) => match p.kind {
            Knight => knight_target(b.board, p.color, fr, fc, t, mode),
            Rook => slider_target(b.board, p.color, fr, fc, t, mode, rook_dirs(), 4),
            Bishop => slider_target(b.board, p.color, fr, fc, t, mode, bishop_dirs(), 4),
            Queen => queen_target(b.board, p.color, fr, fc, t, mode),
            King => king_target(b.board, p.color, fr, fc, t, mode),
            Pawn => pawn_target(b.board, p.color, fr, fc, t, mode),
        },
        _ => false,
    }
}
// opaque wrapper: the successor loop never needs to look inside
#[verifier::opaque]
pub open spec fn pseudo_target(b: &BoardState, fr: int, fc: int, t: Point, mode: MoveGenerationMode) -> bool { pseudo_target_def(b, fr, fc, t, mode) }

// FIDE 3.7.3.1/3.7.3.2: en passant onto the recorded target square, by a pawn standing beside the double-stepped pawn
pub open spec fn ep_geom(ep: Option<Point>, color: PieceColor, fr: int, fc: int, t: Point) -> bool {
    ep == Some(t) && t.0 == fr + (if color == White { -1int } else { 1int }) && abs(t.1 - fc) == 1
}
pub open spec fn ep_move(b: &BoardState, fr: int, fc: int, t: Point) -> bool {
    piece_on(b, fr, fc).kind == Pawn && ep_geom(b.pawn_double_move, b.to_move, fr, fc, t)
}
pub open spec fn king_after(b: &BoardState, fr: int, fc: int, tr: int, tc: int) -> Point {
    if piece_on(b, fr, fc) == (Piece { kind: King, color: b.to_move }) { Point(tr as usize, tc as usize) } else { king_sq(b, b.to_move) }
}
// the mover's king is not attacked after the move
pub open spec fn safe_after(b: &BoardState, fr: int, fc: int, tr: int, tc: int, promo: Option<Piece>) -> bool {
    !attacked_by(after_board(b, fr, fc, tr, tc, promo), opp(b.to_move), king_after(b, fr, fc, tr, tc).0 as int, king_after(b, fr, fc, tr, tc).1 as int)
}
// a legal ordinary move (not castling, not en passant) of the piece on (fr,fc)
pub open spec fn legal_step(b: &BoardState, fr: int, fc: int, t: Point, promo: Option<Piece>, mode: MoveGenerationMode) -> bool {
    pseudo_target(b, fr, fc, t, mode) && promo_ok(b, fr, fc, t.0 as int, promo) && safe_after(b, fr, fc, t.0 as int, t.1 as int, promo)
}
// a legal en-passant capture by the pawn on (fr,fc)
pub open spec fn legal_ep(b: &BoardState, fr: int, fc: int, t: Point, promo: Option<Piece>) -> bool {
    ep_move(b, fr, fc, t) && promo is None && safe_after(b, fr, fc, t.0 as int, t.1 as int, promo)
}
pub open spec fn is_succ(s: &BoardState, from: Point, t: Point, promo: Option<Piece>) -> bool {
    s.last_move == Some((from, t)) && s.pawn_promotion == promo
}
pub open spec fn has_succ(v: Seq<BoardState>, lo: int, from: Point, t: Point, promo: Option<Piece>) -> bool {
    exists|i: int| lo <= i < v.len() && #[trigger] is_succ(&v[i], from, t, promo)
}
pub open spec fn succ_distinct(v: Seq<BoardState>, lo: int) -> bool {
    forall|i: int, j: int| lo <= i < j < v.len() ==> !(v[i].last_move == v[j].last_move && v[i].pawn_promotion == v[j].pawn_promotion)
}
pub open spec fn promotes(b: &BoardState, fr: int, fc: int, tr: int) -> bool {
    let p = piece_on(b, fr, fc);
    p.kind == Pawn && (if p.color == White { tr == 2 } else { tr == 9 })
}
pub open spec fn from_earlier(s: &BoardState, from: Point, targets: Seq<Point>, upto: int) -> bool {
    exists|j: int| 0 <= j < upto && s.last_move == Some((from, #[trigger] targets[j]))
}
// loop invariant of generate_moves_for_piece over the first `upto` targets: every appended successor comes from one of
// them (T), no two appended successors name the same move (D), every legal choice for those targets was appended (C)
pub open spec fn step_inv(b: &BoardState, from: Point, targets: Seq<Point>, upto: int, v: Seq<BoardState>, lo: int) -> bool {
    &&& forall|i: int| lo <= i < v.len() ==> from_earlier(#[trigger] &v[i], from, targets, upto)
    &&& succ_distinct(v, lo)
    &&& forall|j: int, promo: Option<Piece>| 0 <= j < upto && promo_ok(b, from.0 as int, from.1 as int, targets[j].0 as int, promo)
            && safe_after(b, from.0 as int, from.1 as int, targets[j].0 as int, targets[j].1 as int, promo)
            ==> #[trigger] has_succ(v, lo, from, targets[j], promo)
}
pub open spec fn targets_distinct(t: Seq<Point>) -> bool { forall|i: int, j: int| 0 <= i < j < t.len() ==> t[i] != t[j] }
// what an attack computation for colour `by` can see of a square: empty / boundary / which `by` piece / some other piece
pub open spec fn seen(s: Square, by: PieceColor) -> Square {
    match s { Square::Full(p) => if p.color == by { s } else { Square::Full(Piece { kind: Pawn, color: opp(by) }) }, _ => s }
}
pub open spec fn ep_ok(b: &BoardState) -> bool {
    match b.pawn_double_move {
        Some(p) => on_board(p.0 as int, p.1 as int) && at(b.board, p.0 as int, p.1 as int) == Square::Empty
            && p.0 == (if b.to_move == White { 4int } else { 7int })
            && at(b.board, if b.to_move == White { 5int } else { 6int }, p.1 as int) == Square::Full(Piece { kind: Pawn, color: opp(b.to_move) }),
        None => true,
    }
}
pub open spec fn no_pawn_on_back_ranks(bd: [[Square; 12]; 12]) -> bool {
    forall|j: int| 2 <= j < 10 ==> !(#[trigger] at(bd, 2, j) matches Square::Full(q) && q.kind == Pawn) && !(at(bd, 9, j) matches Square::Full(q) && q.kind == Pawn)
}
pub open spec fn enemy_king_sq(b: &BoardState) -> Point { if b.to_move == White { b.black_king_location } else { b.white_king_location } }
// C01's precondition, clause for clause: one king per side (and the cache knows where), the side not to move not in
// check, no pawns on the first or last rank, castling rights only with king and rook at home, en-passant target only
// directly behind a pawn that could just have double-stepped
pub open spec fn legal_position(b: &BoardState) -> bool {
    &&& wf(b.board) && kings_ok(b) && rights_ok(b) && ep_ok(b) && no_pawn_on_back_ranks(b.board)
    &&& !attacked_by(b.board, b.to_move, enemy_king_sq(b).0 as int, enemy_king_sq(b).1 as int)
}
pub open spec fn gen_pre(b: &BoardState, piece: Piece, from: Point) -> bool {
    &&& legal_position(b)
    &&& on_board(from.0 as int, from.1 as int) && at(b.board, from.0 as int, from.1 as int) == Square::Full(piece)
    &&& piece.color == b.to_move
}
// every successor pushed for the piece on `from`: it is the position after the move its descriptor names (C02) and
// the mover's king is not attacked in it
pub open spec fn gen_sound(b: &BoardState, s: &BoardState, from: Point) -> bool {
    &&& s.last_move is Some && s.last_move.unwrap().0 == from
    &&& on_board(s.last_move.unwrap().1.0 as int, s.last_move.unwrap().1.1 as int)
    &&& succ_ok(b, s, from.0 as int, from.1 as int, s.last_move.unwrap().1.0 as int, s.last_move.unwrap().1.1 as int)
    &&& !attacked_by(s.board, s.to_move, king_sq(s, b.to_move).0 as int, king_sq(s, b.to_move).1 as int)
}

// ---- castling (FIDE 3.8.2) ----
pub open spec fn home_row(t: CastlingType) -> int { if right_color(t) == White { 9 } else { 2 } }
pub open spec fn king_side(t: CastlingType) -> bool { t == CastlingType::WhiteKingSide || t == CastlingType::BlackKingSide }
pub open spec fn king_to(t: CastlingType) -> int { if king_side(t) { 8 } else { 4 } }
pub open spec fn rook_from(t: CastlingType) -> int { if king_side(t) { 9 } else { 2 } }
pub open spec fn rook_to(t: CastlingType) -> int { if king_side(t) { 7 } else { 5 } }
pub open spec fn may_castle(b: &BoardState, t: CastlingType) -> bool {
    let r = home_row(t); let by = opp(right_color(t));
    right(b, t)
    && (if king_side(t) { at(b.board, r, 7) == Square::Empty && at(b.board, r, 8) == Square::Empty }
        else { at(b.board, r, 3) == Square::Empty && at(b.board, r, 4) == Square::Empty && at(b.board, r, 5) == Square::Empty })
    && !attacked_by(b.board, by, r, 6)                                 // not out of check
    && !attacked_by(b.board, by, r, if king_side(t) { 7 } else { 5 })  // not through an attacked square
    && !attacked_by(b.board, by, r, king_to(t))                        // not into an attacked square
}
// the POSITION after castling: king two squares towards the rook, rook over the king, both rights of that colour gone
pub open spec fn castle_pos_after(b: &BoardState, s: &BoardState, t: CastlingType) -> bool {
    let r = home_row(t); let c = right_color(t);
    let b1 = upd2(upd2(b.board, r, 6, Square::Empty), r, king_to(t), Square::Full(Piece { kind: King, color: c }));
    &&& s.board == upd2(upd2(b1, r, rook_from(t), Square::Empty), r, rook_to(t), Square::Full(Piece { kind: Rook, color: c }))
    &&& s.to_move == opp(b.to_move)
    &&& s.pawn_double_move is None
    &&& king_sq(s, c) == Point(r as usize, king_to(t) as usize) && king_sq(s, opp(c)) == king_sq(b, opp(c))
    &&& (if c == White { !s.white_king_side_castle && !s.white_queen_side_castle && s.black_king_side_castle == b.black_king_side_castle && s.black_queen_side_castle == b.black_queen_side_castle }
         else { !s.black_king_side_castle && !s.black_queen_side_castle && s.white_king_side_castle == b.white_king_side_castle && s.white_queen_side_castle == b.white_queen_side_castle })
}
// ... and the descriptor is the king's two-square move, without a promotion letter
pub open spec fn castle_succ_ok(b: &BoardState, s: &BoardState, t: CastlingType) -> bool {
    let r = home_row(t);
    &&& castle_pos_after(b, s, t)
    &&& s.last_move == Some((Point(r as usize, 6), Point(r as usize, king_to(t) as usize)))
    &&& s.pawn_promotion is None
}
pub open spec fn castle_mv(t: CastlingType) -> Mv { (Point(home_row(t) as usize, 6), Point(home_row(t) as usize, king_to(t) as usize), None) }

// ---- C01: the legal moves of a position ----
pub type Mv = (Point, Point, Option<Piece>);
pub open spec fn move_of(s: &BoardState) -> Mv { (s.last_move.unwrap().0, s.last_move.unwrap().1, s.pawn_promotion) }
pub open spec fn own_at(b: &BoardState, p: Point) -> bool {
    on_board(p.0 as int, p.1 as int) && (at(b.board, p.0 as int, p.1 as int) matches Square::Full(q) && q.color == b.to_move)
}
// m is a legal non-castling move of the piece standing on m.0: an ordinary step/capture/push/promotion or an en-passant capture
pub open spec fn legal_from(b: &BoardState, m: Mv, mode: MoveGenerationMode) -> bool {
    legal_step(b, m.0.0 as int, m.0.1 as int, m.1, m.2, mode) || legal_ep(b, m.0.0 as int, m.0.1 as int, m.1, m.2)
}
pub open spec fn legal_castle(b: &BoardState, m: Mv) -> bool {
    exists|t: CastlingType| right_color(t) == b.to_move && #[trigger] may_castle(b, t) && m == castle_mv(t)
}
pub open spec fn legal_move(b: &BoardState, m: Mv, mode: MoveGenerationMode) -> bool {
    (own_at(b, m.0) && legal_from(b, m, mode)) || (mode == MoveGenerationMode::AllMoves && legal_castle(b, m))
}
pub open spec fn has_move(v: Seq<BoardState>, lo: int, m: Mv) -> bool {
    exists|i: int| lo <= i < v.len() && (#[trigger] v[i]).last_move is Some && move_of(&v[i]) == m
}
pub open spec fn distinct_moves(v: Seq<BoardState>, lo: int) -> bool {
    forall|i: int, j: int| lo <= i < j < v.len() ==> move_of(&v[i]) != move_of(&v[j])
}
pub open spec fn prefix_kept(old_v: Seq<BoardState>, new_v: Seq<BoardState>) -> bool {
    new_v.len() >= old_v.len() && forall|i: int| 0 <= i < old_v.len() ==> new_v[i] == old_v[i]
}
"""

def build(g):
    g.add(g.const('move_generation', 'MVV_LVA'), g.const('move_generation', 'QUEEN_PROMOTION_SCORE'), g.const('move_generation', 'UNDER_PROMOTION_SCORE'))
    g.add(SPEC3, SPEC_T, SPEC_PK, SPEC_RULES)
