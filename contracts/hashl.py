"""Layer 2 -- Zobrist key bookkeeping (C05; used by C01/C02/C13/C04).

Units: ZobristHasher::{get_val_for_piece, get_val_for_castling, get_val_for_en_passant, get_black_to_move_val},
PieceKind::index, Piece::index, BoardState::{swap_color, take_away_castling_rights, unset_pawn_double_move, move_piece}.
key_ok(b, h) := b.zobrist_key == hash_of(b, h) is a representation invariant every mutator preserves;
hash_of is the from-scratch key (XOR over the 64 squares, side, four rights, en-passant file) for ANY table contents.
"""

def types(g):
    return '\n'.join([
        g.typ('move_generation', 'enum', 'CastlingType'),
        g.typ('move_generation', 'enum', 'MoveGenerationMode'),
        g.const('zobrist', 'BOARD_SIZE'),
        g.const('zobrist', 'PIECE_TYPES'),
        'pub type ZobristKey = u64;',
        g.typ('zobrist', 'struct', 'ZobristHasher'),
    ])

SPEC2 = r'''
impl PartialEqSpecImpl for CastlingType { open spec fn obeys_eq_spec() -> bool { true } open spec fn eq_spec(&self, o: &CastlingType) -> bool { *self == *o } }
impl PartialEqSpecImpl for MoveGenerationMode { open spec fn obeys_eq_spec() -> bool { true } open spec fn eq_spec(&self, o: &MoveGenerationMode) -> bool { *self == *o } }

// the castling right named t, as recorded in the position
pub open spec fn right(b: &BoardState, t: CastlingType) -> bool {
    match t {
        CastlingType::WhiteKingSide => b.white_king_side_castle, CastlingType::WhiteQueenSide => b.white_queen_side_castle,
        CastlingType::BlackKingSide => b.black_king_side_castle, CastlingType::BlackQueenSide => b.black_queen_side_castle,
    }
}
pub open spec fn kind_idx(k: PieceKind) -> int { match k { King => 0, Queen => 1, Rook => 2, Bishop => 3, Knight => 4, Pawn => 5 } }
pub open spec fn pidx(p: Piece) -> int { kind_idx(p.kind) + if p.color == White { 0int } else { 6int } }

// abstract view of the (private) random tables: the proofs hold for ANY table contents
impl ZobristHasher {
    pub closed spec fn pc(&self, p: Piece, r: int, c: int) -> u64 { self.piece_square_table[pidx(p)][c][r] }
    pub closed spec fn side(&self) -> u64 { self.black_to_move }
    pub closed spec fn ep(&self, file: int) -> u64 { self.en_passant_files[file] }
    pub closed spec fn castle(&self, t: CastlingType) -> u64 {
        match t {
            CastlingType::WhiteKingSide => self.white_king_side_castle,
            CastlingType::WhiteQueenSide => self.white_queen_side_castle,
            CastlingType::BlackKingSide => self.black_king_side_castle,
            CastlingType::BlackQueenSide => self.black_queen_side_castle,
        }
    }
}
pub open spec fn sq_hash(h: &ZobristHasher, s: Square, r: int, c: int) -> u64 {
    match s { Square::Full(p) => h.pc(p, r, c), _ => 0u64 }
}
// from-scratch key of the 8x8 placement: XOR over the first n squares in row-major order
pub open spec fn cell_r(n: int) -> int { 2 + n / 8 }
pub open spec fn cell_c(n: int) -> int { 2 + n % 8 }
pub open spec fn placement_hash(h: &ZobristHasher, bd: [[Square; 12]; 12], n: int) -> u64
    decreases n
{
    if n <= 0 { 0u64 } else { placement_hash(h, bd, n - 1) ^ sq_hash(h, bd[cell_r(n - 1)][cell_c(n - 1)], cell_r(n - 1), cell_c(n - 1)) }
}
pub open spec fn flag(b: bool, v: u64) -> u64 { if b { v } else { 0u64 } }
// C05: the key "computed from scratch for the position it describes"
pub open spec fn hash_of(b: &BoardState, h: &ZobristHasher) -> u64 {
    placement_hash(h, b.board, 64)
        ^ flag(b.to_move == Black, h.side())
        ^ flag(b.white_king_side_castle, h.castle(CastlingType::WhiteKingSide))
        ^ flag(b.white_queen_side_castle, h.castle(CastlingType::WhiteQueenSide))
        ^ flag(b.black_king_side_castle, h.castle(CastlingType::BlackKingSide))
        ^ flag(b.black_queen_side_castle, h.castle(CastlingType::BlackQueenSide))
        ^ ep_hash(b, h)
}
// the seven components, named, so that hints can talk about them
pub open spec fn kp(b: &BoardState, h: &ZobristHasher) -> u64 { placement_hash(h, b.board, 64) }
pub open spec fn ks(b: &BoardState, h: &ZobristHasher) -> u64 { flag(b.to_move == Black, h.side()) }
pub open spec fn kc1(b: &BoardState, h: &ZobristHasher) -> u64 { flag(b.white_king_side_castle, h.castle(CastlingType::WhiteKingSide)) }
pub open spec fn kc2(b: &BoardState, h: &ZobristHasher) -> u64 { flag(b.white_queen_side_castle, h.castle(CastlingType::WhiteQueenSide)) }
pub open spec fn kc3(b: &BoardState, h: &ZobristHasher) -> u64 { flag(b.black_king_side_castle, h.castle(CastlingType::BlackKingSide)) }
pub open spec fn kc4(b: &BoardState, h: &ZobristHasher) -> u64 { flag(b.black_queen_side_castle, h.castle(CastlingType::BlackQueenSide)) }
pub open spec fn key_ok(b: &BoardState, h: &ZobristHasher) -> bool { b.zobrist_key == hash_of(b, h) }
pub open spec fn ep_hash(b: &BoardState, h: &ZobristHasher) -> u64 { match b.pawn_double_move { Some(p) => h.ep(p.1 as int), None => 0u64 } }
// XOR bookkeeping used by every mutator: replacing one of the seven components of the key
pub proof fn lemma_key_component(p: u64, s: u64, c1: u64, c2: u64, c3: u64, c4: u64, e: u64, d: u64)
    ensures
        (p ^ s ^ c1 ^ c2 ^ c3 ^ c4 ^ e) ^ d == (p ^ d) ^ s ^ c1 ^ c2 ^ c3 ^ c4 ^ e,
        (p ^ s ^ c1 ^ c2 ^ c3 ^ c4 ^ e) ^ d == p ^ (s ^ d) ^ c1 ^ c2 ^ c3 ^ c4 ^ e,
        (p ^ s ^ c1 ^ c2 ^ c3 ^ c4 ^ e) ^ d == p ^ s ^ (c1 ^ d) ^ c2 ^ c3 ^ c4 ^ e,
        (p ^ s ^ c1 ^ c2 ^ c3 ^ c4 ^ e) ^ d == p ^ s ^ c1 ^ (c2 ^ d) ^ c3 ^ c4 ^ e,
        (p ^ s ^ c1 ^ c2 ^ c3 ^ c4 ^ e) ^ d == p ^ s ^ c1 ^ c2 ^ (c3 ^ d) ^ c4 ^ e,
        (p ^ s ^ c1 ^ c2 ^ c3 ^ c4 ^ e) ^ d == p ^ s ^ c1 ^ c2 ^ c3 ^ (c4 ^ d) ^ e,
        (p ^ s ^ c1 ^ c2 ^ c3 ^ c4 ^ e) ^ d == p ^ s ^ c1 ^ c2 ^ c3 ^ c4 ^ (e ^ d),
        d ^ d == 0u64, 0u64 ^ d == d, d ^ 0u64 == d,
{
    assert((p ^ s ^ c1 ^ c2 ^ c3 ^ c4 ^ e) ^ d == (p ^ d) ^ s ^ c1 ^ c2 ^ c3 ^ c4 ^ e) by (bit_vector);
    assert((p ^ s ^ c1 ^ c2 ^ c3 ^ c4 ^ e) ^ d == p ^ (s ^ d) ^ c1 ^ c2 ^ c3 ^ c4 ^ e) by (bit_vector);
    assert((p ^ s ^ c1 ^ c2 ^ c3 ^ c4 ^ e) ^ d == p ^ s ^ (c1 ^ d) ^ c2 ^ c3 ^ c4 ^ e) by (bit_vector);
    assert((p ^ s ^ c1 ^ c2 ^ c3 ^ c4 ^ e) ^ d == p ^ s ^ c1 ^ (c2 ^ d) ^ c3 ^ c4 ^ e) by (bit_vector);
    assert((p ^ s ^ c1 ^ c2 ^ c3 ^ c4 ^ e) ^ d == p ^ s ^ c1 ^ c2 ^ (c3 ^ d) ^ c4 ^ e) by (bit_vector);
    assert((p ^ s ^ c1 ^ c2 ^ c3 ^ c4 ^ e) ^ d == p ^ s ^ c1 ^ c2 ^ c3 ^ (c4 ^ d) ^ e) by (bit_vector);
    assert((p ^ s ^ c1 ^ c2 ^ c3 ^ c4 ^ e) ^ d == p ^ s ^ c1 ^ c2 ^ c3 ^ c4 ^ (e ^ d)) by (bit_vector);
    assert(d ^ d == 0u64) by (bit_vector);
    assert(0u64 ^ d == d) by (bit_vector);
    assert(d ^ 0u64 == d) by (bit_vector);
}
pub open spec fn upd2(bd: [[Square; 12]; 12], r: int, c: int, v: Square) -> [[Square; 12]; 12] {
    vstd::array::spec_array_update(bd, r, vstd::array::spec_array_update(bd[r], c, v))
}
pub proof fn lemma_xor_swap(a: u64, x: u64, d: u64)
    ensures (a ^ x) ^ d == (a ^ d) ^ x, a ^ 0u64 == a, (a ^ x) ^ x == a
{
    assert((a ^ x) ^ d == (a ^ d) ^ x) by (bit_vector);
    assert(a ^ 0u64 == a) by (bit_vector);
    assert((a ^ x) ^ x == a) by (bit_vector);
}
// changing one on-board square changes the placement hash by (old value ^ new value) of that square
pub proof fn lemma_placement_update(h: &ZobristHasher, bd: [[Square; 12]; 12], r: int, c: int, v: Square, n: int)
    requires on_board(r, c), 0 <= n <= 64
    ensures placement_hash(h, upd2(bd, r, c, v), n) ==
        (if n > (r - 2) * 8 + (c - 2) { placement_hash(h, bd, n) ^ (sq_hash(h, bd[r][c], r, c) ^ sq_hash(h, v, r, c)) } else { placement_hash(h, bd, n) })
    decreases n
{
    if n > 0 {
        lemma_placement_update(h, bd, r, c, v, n - 1);
        let k = (r - 2) * 8 + (c - 2);
        let rr = cell_r(n - 1); let cc = cell_c(n - 1);
        let nb = upd2(bd, r, c, v);
        let a = placement_hash(h, bd, n - 1);
        let d = sq_hash(h, bd[r][c], r, c) ^ sq_hash(h, v, r, c);
        if n - 1 == k {
            assert(rr == r && cc == c);
            assert(nb[r][c] == v);
            let o = sq_hash(h, bd[r][c], r, c); let w = sq_hash(h, v, r, c);
            assert(a ^ w == (a ^ o) ^ (o ^ w)) by (bit_vector);
        } else {
            assert(!(rr == r && cc == c));
            assert(nb[rr][cc] == bd[rr][cc]);
            let x = sq_hash(h, bd[rr][cc], rr, cc);
            if n - 1 > k { assert((a ^ d) ^ x == (a ^ x) ^ d) by (bit_vector); }
        }
    }
}
'''

ANN_swap_color = {
      'ensures': [# position frame + effect (everything but the key): own obligation of the position properties;
                  # exact key effect: support only (callers need it, no property states it);
                  # key_ok preserved: own obligation of C05 / C04
                  '@~C01,C02,C04,C13| *final(self) == (BoardState { to_move: opp(old(self).to_move), zobrist_key: final(self).zobrist_key, ..*old(self) })',
                  '@~| final(self).zobrist_key == old(self).zobrist_key ^ zobrist_hasher.side()',
                  '@~C05,C04| key_ok(old(self), zobrist_hasher) ==> key_ok(final(self), zobrist_hasher)'],
      'at_end': '''proof { let o = old(self); let h = zobrist_hasher;
            lemma_key_component(kp(o, h), ks(o, h), kc1(o, h), kc2(o, h), kc3(o, h), kc4(o, h), ep_hash(o, h), h.side()); }'''}
ANN_take_away_castling_rights = {
      'ensures': ['''@~C01,C02,C04,C13| *final(self) == (match castling_type {
            CastlingType::WhiteKingSide => BoardState { white_king_side_castle: false, zobrist_key: final(self).zobrist_key, ..*old(self) },
            CastlingType::WhiteQueenSide => BoardState { white_queen_side_castle: false, zobrist_key: final(self).zobrist_key, ..*old(self) },
            CastlingType::BlackKingSide => BoardState { black_king_side_castle: false, zobrist_key: final(self).zobrist_key, ..*old(self) },
            CastlingType::BlackQueenSide => BoardState { black_queen_side_castle: false, zobrist_key: final(self).zobrist_key, ..*old(self) },
        })''', '@~| final(self).zobrist_key == old(self).zobrist_key ^ flag(right(old(self), castling_type), zobrist_hasher.castle(castling_type))',
            '@~C05,C04| key_ok(old(self), zobrist_hasher) ==> key_ok(final(self), zobrist_hasher)'],
      'body_start': '''proof { let k = old(self).zobrist_key; assert(k ^ 0u64 == k) by (bit_vector);
            let o = old(self); let h = zobrist_hasher;
            lemma_key_component(kp(o, h), ks(o, h), kc1(o, h), kc2(o, h), kc3(o, h), kc4(o, h), ep_hash(o, h), h.castle(castling_type)); }'''}
ANN_unset_pawn_double_move = {
      'requires': ['old(self).pawn_double_move is Some ==> old(self).pawn_double_move.unwrap().1 < 12'],
      'ensures': ['@~C01,C02,C04,C13| *final(self) == (BoardState { pawn_double_move: None, zobrist_key: final(self).zobrist_key, ..*old(self) })',
            '@~| final(self).zobrist_key == (match old(self).pawn_double_move { Some(p) => old(self).zobrist_key ^ zobrist_hasher.ep(p.1 as int), None => old(self).zobrist_key })',
            '@~C05,C04| key_ok(old(self), zobrist_hasher) ==> key_ok(final(self), zobrist_hasher)'],
      'body_start': '''proof { let o = old(self); let h = zobrist_hasher;
            lemma_key_component(kp(o, h), ks(o, h), kc1(o, h), kc2(o, h), kc3(o, h), kc4(o, h), ep_hash(o, h), ep_hash(o, h)); }'''}
ANN_move_piece = {
      'requires': ['in_arr(start.0 as int, start.1 as int)', 'in_arr(end.0 as int, end.1 as int)'],
      'ensures': ['''@~C01,C02,C04,C13| match old(self).board[start.0 as int][start.1 as int] {
            Square::Full(p) => {
                let b1 = upd2(old(self).board, start.0 as int, start.1 as int, Square::Empty);
                *final(self) == (BoardState { board: upd2(b1, end.0 as int, end.1 as int, Square::Full(p)), zobrist_key: final(self).zobrist_key, ..*old(self) })
            },
            _ => *final(self) == (BoardState { zobrist_key: final(self).zobrist_key, ..*old(self) }),
        }''', '''@~| final(self).zobrist_key == (match old(self).board[start.0 as int][start.1 as int] {
            Square::Full(p) => {
                let b1 = upd2(old(self).board, start.0 as int, start.1 as int, Square::Empty);
                old(self).zobrist_key ^ sq_hash(zobrist_hasher, b1[end.0 as int][end.1 as int], end.0 as int, end.1 as int)
                    ^ (zobrist_hasher.pc(p, start.0 as int, start.1 as int) ^ zobrist_hasher.pc(p, end.0 as int, end.1 as int))
            },
            _ => old(self).zobrist_key,
        })''', '@~C05,C04| key_ok(old(self), zobrist_hasher) && on_board(start.0 as int, start.1 as int) && on_board(end.0 as int, end.1 as int) ==> key_ok(final(self), zobrist_hasher)'],
      'body_start': '''proof { let k = old(self).zobrist_key; assert(k ^ 0u64 == k) by (bit_vector);
            let o = old(self); let h = zobrist_hasher;
            if on_board(start.0 as int, start.1 as int) && on_board(end.0 as int, end.1 as int) {
                if let Square::Full(p) = o.board[start.0 as int][start.1 as int] {
                    let sr = start.0 as int; let sc = start.1 as int; let er = end.0 as int; let ec = end.1 as int;
                    let b1 = upd2(o.board, sr, sc, Square::Empty);
                    let b2 = upd2(b1, er, ec, Square::Full(p));
                    lemma_placement_update(h, o.board, sr, sc, Square::Empty, 64);
                    lemma_placement_update(h, b1, er, ec, Square::Full(p), 64);
                    let d1 = sq_hash(h, o.board[sr][sc], sr, sc) ^ sq_hash(h, Square::Empty, sr, sc);
                    let d2 = sq_hash(h, b1[er][ec], er, ec) ^ sq_hash(h, Square::Full(p), er, ec);
                    let pl = placement_hash(h, o.board, 64);
                    assert(placement_hash(h, b2, 64) == (pl ^ d1) ^ d2);
                    let t = sq_hash(h, b1[er][ec], er, ec); let x = h.pc(p, sr, sc); let y = h.pc(p, er, ec);
                    assert(d1 == x ^ 0u64); assert(d2 == t ^ y);
                    assert((pl ^ (x ^ 0u64)) ^ (t ^ y) == pl ^ (t ^ (x ^ y))) by (bit_vector);
                    lemma_key_component(kp(o, h), ks(o, h), kc1(o, h), kc2(o, h), kc3(o, h), kc4(o, h), ep_hash(o, h), t ^ (x ^ y));
                    assert((k ^ t) ^ (x ^ y) == k ^ (t ^ (x ^ y))) by (bit_vector);
                }
            }
        }'''}


P_HASH = ('C05', 'C01', 'C02', 'C13', 'C04')

def build(g):
    g.add(types(g), SPEC2)
    Z = dict(impl='ZobristHasher', props=P_HASH, own=('C05', 'C04'))
    g.add('impl ZobristHasher {',
          g.fn('zobrist', 'get_val_for_piece', {'ret': 'res', 'requires': ['point.0 < 12', 'point.1 < 12'], 'ensures': ['res == self.pc(piece, point.0 as int, point.1 as int)']}, qual='ZobristHasher::get_val_for_piece', **Z),
          g.fn('zobrist', 'get_val_for_castling', {'ret': 'res', 'ensures': ['res == self.castle(castling_type)']}, qual='ZobristHasher::get_val_for_castling', **Z),
          g.fn('zobrist', 'get_val_for_en_passant', {'ret': 'res', 'requires': ['file < 12'], 'ensures': ['res == self.ep(file as int)']}, qual='ZobristHasher::get_val_for_en_passant', **Z),
          g.fn('zobrist', 'get_black_to_move_val', {'ret': 'res', 'ensures': ['res == self.side()']}, qual='ZobristHasher::get_black_to_move_val', **Z),
          '}')
    g.add('impl PieceKind {', g.fn('board', 'index', {'ret': 'res', 'ensures': ['res == kind_idx(self)']}, impl='PieceKind', qual='PieceKind::index', props=P_HASH, own=('C05', 'C04')), '}')
    g.add('impl Piece {', g.fn('board', 'index', {'ret': 'res', 'ensures': ['res == kind_idx(self.kind)']}, impl='Piece', qual='Piece::index', props=P_HASH, own=('C05', 'C04')), '}')
    g.add('impl BoardState {')
    for m in ['swap_color', 'take_away_castling_rights', 'unset_pawn_double_move', 'move_piece']:
        g.add(g.fn('board', m, globals()['ANN_' + m], impl='BoardState', qual='BoardState::' + m, props=P_HASH))
    g.add('}')
