"""Layer 4 -- per-piece pseudo-legal target generators (A-contracts; C01/C13, used by C02/C05).

Units: Square::{is_empty_or_color, is_color}, knight_moves, pawn_moves, king_moves, rook_moves, bishop_moves, queen_moves,
get_moves.  Each appends exactly the target set of its piece kind: sound, complete, duplicate-free, prefix unchanged.
The contracts are set-based, so reordering an offset table does not break the proof.
"""
MODE_REQ = ['@C01| move_generation_mode == MoveGenerationMode::AllMoves', '@C13| move_generation_mode == MoveGenerationMode::CapturesOnly']
KN = {
    'requires': ['wf(board.board)', 'on_board(row as int, col as int)'] + MODE_REQ,
    'ensures': [
        'appended(old(moves)@, final(moves)@)',
        'forall|i: int| old(moves)@.len() <= i < final(moves)@.len() ==> knight_target(board.board, piece.color, row as int, col as int, #[trigger] final(moves)@[i], move_generation_mode)',
        'forall|t: Point| #[trigger] knight_target(board.board, piece.color, row as int, col as int, t, move_generation_mode) ==> has_from(final(moves)@, old(moves)@.len() as int, t)',
        'distinct_from(final(moves)@, old(moves)@.len() as int)',
    ],
    'loops': {0: {
        'iter': 'it',
        'invariant': MODE_REQ + [
            'wf(board.board)', 'on_board(row as int, col as int)', 'row_0 == row as int', 'col_0 == col as int',
            'appended(old(moves)@, moves@)',
            'forall|i: int| old(moves)@.len() <= i < moves@.len() ==> knight_target_upto(board.board, piece.color, row as int, col as int, #[trigger] moves@[i], move_generation_mode, it.index@)',
            'forall|t: Point| #[trigger] knight_target_upto(board.board, piece.color, row as int, col as int, t, move_generation_mode, it.index@) ==> has_from(moves@, old(moves)@.len() as int, t)',
            'distinct_from(moves@, old(moves)@.len() as int)',
        ],
        'body_start': 'proof { assert(knight_dirs()[it.index@] == (*r, *c)); } let ghost before = moves@;',
        'body_end': '''proof {
            let d0 = it.index@;
            let t = Point(row, col);
            let lo = old(moves)@.len() as int;
            assert(from_offset(t, row_0, col_0, knight_dirs(), d0));
            if moves@.len() > before.len() {
                assert(moves@ == before.push(t));
                assert(moves@[before.len() as int] == t);
                assert(has_from(moves@, lo, t));
            } else { assert(moves@ == before); }
            // soundness of every element w.r.t. the larger offset range
            assert forall|i: int| lo <= i < moves@.len() implies knight_target_upto(board.board, piece.color, row_0, col_0, #[trigger] moves@[i], move_generation_mode, d0 + 1) by {
                if i < before.len() {
                    assert(moves@[i] == before[i]);
                    let d = choose|d: int| 0 <= d < d0 && #[trigger] from_offset(before[i], row_0, col_0, knight_dirs(), d) && land_ok(board.board, piece.color, before[i].0 as int, before[i].1 as int, move_generation_mode);
                    assert(from_offset(moves@[i], row_0, col_0, knight_dirs(), d));
                }
            }
            // completeness
            assert forall|u: Point| #[trigger] knight_target_upto(board.board, piece.color, row_0, col_0, u, move_generation_mode, d0 + 1) implies has_from(moves@, lo, u) by {
                let d = choose|d: int| 0 <= d < d0 + 1 && #[trigger] from_offset(u, row_0, col_0, knight_dirs(), d) && land_ok(board.board, piece.color, u.0 as int, u.1 as int, move_generation_mode);
                if d < d0 {
                    assert(knight_target_upto(board.board, piece.color, row_0, col_0, u, move_generation_mode, d0));
                    assert(has_from(before, lo, u));
                    let i = choose|i: int| lo <= i < before.len() && #[trigger] before[i] == u;
                    assert(moves@[i] == u);
                } else {
                    assert(u == t);
                }
            }
            // distinctness: a point appended now cannot have been produced by an earlier offset
            assert(distinct_from(moves@, lo)) by {
                if moves@.len() > before.len() {
                    assert forall|i: int| lo <= i < before.len() implies before[i] != t by {
                        let d = choose|d: int| 0 <= d < d0 && #[trigger] from_offset(before[i], row_0, col_0, knight_dirs(), d) && land_ok(board.board, piece.color, before[i].0 as int, before[i].1 as int, move_generation_mode);
                        assert(knight_dirs()[d] != knight_dirs()[d0]);
                    }
                }
            }
        }''',
    }},
    'body_start': 'let ghost row_0 = row as int; let ghost col_0 = col as int;',
}

SPEC_K = r"""
pub open spec fn cell_before(a: int, b: int, i: int, j: int) -> bool { a < i || (a == i && b < j) }
// king targets among the 3x3 cells that precede cell (i,j) in row-major order
pub open spec fn king_target_upto(bd: [[Square; 12]; 12], color: PieceColor, fr: int, fc: int, t: Point, mode: MoveGenerationMode, i: int, j: int) -> bool {
    king_target(bd, color, fr, fc, t, mode) && cell_before(t.0 - fr + 1, t.1 - fc + 1, i, j)
}
pub proof fn lemma_king_cell(bd: [[Square; 12]; 12], color: PieceColor, fr: int, fc: int, mode: MoveGenerationMode, i: int, j: int, t: Point, before: Seq<Point>, now: Seq<Point>, lo: int)
    requires
        0 <= i < 3, 0 <= j < 3, 0 <= lo <= before.len(), on_board(fr, fc),
        t.0 == fr + i - 1, t.1 == fc + j - 1,
        now == (if king_target(bd, color, fr, fc, t, mode) { before.push(t) } else { before }),
        forall|k: int| lo <= k < before.len() ==> king_target_upto(bd, color, fr, fc, #[trigger] before[k], mode, i, j),
        forall|u: Point| #[trigger] king_target_upto(bd, color, fr, fc, u, mode, i, j) ==> has_from(before, lo, u),
        distinct_from(before, lo),
    ensures
        forall|k: int| lo <= k < now.len() ==> king_target_upto(bd, color, fr, fc, #[trigger] now[k], mode, i, j + 1),
        forall|u: Point| #[trigger] king_target_upto(bd, color, fr, fc, u, mode, i, j + 1) ==> has_from(now, lo, u),
        distinct_from(now, lo),
{
    assert forall|k: int| lo <= k < now.len() implies king_target_upto(bd, color, fr, fc, #[trigger] now[k], mode, i, j + 1) by {
        if k < before.len() { assert(now[k] == before[k]); assert(king_target_upto(bd, color, fr, fc, before[k], mode, i, j)); }
        else { assert(now[k] == t); }
    }
    assert forall|u: Point| #[trigger] king_target_upto(bd, color, fr, fc, u, mode, i, j + 1) implies has_from(now, lo, u) by {
        if king_target_upto(bd, color, fr, fc, u, mode, i, j) {
            let k = choose|k: int| lo <= k < before.len() && #[trigger] before[k] == u;
            assert(now[k] == u);
        } else {
            assert(u == t);
            assert(now[before.len() as int] == t);
        }
    }
    assert(distinct_from(now, lo)) by {
        if king_target(bd, color, fr, fc, t, mode) {
            assert forall|k: int| lo <= k < before.len() implies before[k] != t by {
                assert(king_target_upto(bd, color, fr, fc, before[k], mode, i, j));
            }
        }
    }
}
"""
SPEC_SL = r"""
pub open spec fn slide_upto(bd: [[Square; 12]; 12], color: PieceColor, fr: int, fc: int, t: Point, mode: MoveGenerationMode, dr: int, dc: int, nmax: int) -> bool {
    exists|n: int| 1 <= n < nmax && #[trigger] slide_hits(bd, color, fr, fc, t, mode, dr, dc, n)
}
// targets along the first `upto` directions, or along direction `upto` within fewer than `nmax` steps
pub open spec fn slider_partial(bd: [[Square; 12]; 12], color: PieceColor, fr: int, fc: int, t: Point, mode: MoveGenerationMode, dirs: Seq<(i8, i8)>, upto: int, nmax: int) -> bool {
    slider_target(bd, color, fr, fc, t, mode, dirs, upto)
    || (0 <= upto < dirs.len() && slide_upto(bd, color, fr, fc, t, mode, dirs[upto].0 as int, dirs[upto].1 as int, nmax))
}
// one step of the inner loop: the square at distance n is empty; it was appended iff the mode accepts empty squares
pub proof fn lemma_partial_step(bd: [[Square; 12]; 12], color: PieceColor, fr: int, fc: int, mode: MoveGenerationMode, dirs: Seq<(i8, i8)>, d0: int, n: int, t: Point, before: Seq<Point>, now: Seq<Point>, lo: int)
    requires
        dirs == rook_dirs() || dirs == bishop_dirs(), 0 <= d0 < 4, 1 <= n < 8, 0 <= lo <= before.len(),
        on_board(fr, fc),
        t.0 == fr + n * dirs[d0].0, t.1 == fc + n * dirs[d0].1,
        clear(bd, fr, fc, dirs[d0].0 as int, dirs[d0].1 as int, n),
        at(bd, t.0 as int, t.1 as int) == Square::Empty,
        now == (if mode == MoveGenerationMode::AllMoves { before.push(t) } else { before }),
        forall|i: int| lo <= i < before.len() ==> slider_partial(bd, color, fr, fc, #[trigger] before[i], mode, dirs, d0, n),
        forall|u: Point| #[trigger] slider_partial(bd, color, fr, fc, u, mode, dirs, d0, n) ==> has_from(before, lo, u),
        distinct_from(before, lo),
    ensures
        forall|i: int| lo <= i < now.len() ==> slider_partial(bd, color, fr, fc, #[trigger] now[i], mode, dirs, d0, n + 1),
        forall|u: Point| #[trigger] slider_partial(bd, color, fr, fc, u, mode, dirs, d0, n + 1) ==> has_from(now, lo, u),
        distinct_from(now, lo),
{
    let dr = dirs[d0].0 as int; let dc = dirs[d0].1 as int;
    let all = mode == MoveGenerationMode::AllMoves;
    assert forall|i: int| lo <= i < now.len() implies slider_partial(bd, color, fr, fc, #[trigger] now[i], mode, dirs, d0, n + 1) by {
        if i < before.len() {
            assert(now[i] == before[i]);
            let u = before[i];
            assert(slider_partial(bd, color, fr, fc, u, mode, dirs, d0, n));
            if !slider_target(bd, color, fr, fc, u, mode, dirs, d0) {
                let m = choose|m: int| 1 <= m < n && #[trigger] slide_hits(bd, color, fr, fc, u, mode, dr, dc, m);
                assert(slide_hits(bd, color, fr, fc, u, mode, dr, dc, m));
                assert(slide_upto(bd, color, fr, fc, u, mode, dr, dc, n + 1));
            }
        } else {
            assert(now[i] == t);
            assert(slide_hits(bd, color, fr, fc, t, mode, dr, dc, n));
            assert(slide_upto(bd, color, fr, fc, t, mode, dr, dc, n + 1));
        }
    }
    assert forall|u: Point| #[trigger] slider_partial(bd, color, fr, fc, u, mode, dirs, d0, n + 1) implies has_from(now, lo, u) by {
        if slider_target(bd, color, fr, fc, u, mode, dirs, d0) {
            assert(slider_partial(bd, color, fr, fc, u, mode, dirs, d0, n));
            let i = choose|i: int| lo <= i < before.len() && #[trigger] before[i] == u;
            assert(now[i] == u);
        } else {
            let m = choose|m: int| 1 <= m < n + 1 && #[trigger] slide_hits(bd, color, fr, fc, u, mode, dr, dc, m);
            if m < n {
                assert(slide_upto(bd, color, fr, fc, u, mode, dr, dc, n));
                assert(slider_partial(bd, color, fr, fc, u, mode, dirs, d0, n));
                let i = choose|i: int| lo <= i < before.len() && #[trigger] before[i] == u;
                assert(now[i] == u);
            } else {
                assert(u == t);
                assert(all);
                assert(now[before.len() as int] == t);
            }
        }
    }
    assert(distinct_from(now, lo)) by {
        if all {
            assert forall|i: int| lo <= i < before.len() implies before[i] != t by {
                let u = before[i];
                assert(slider_partial(bd, color, fr, fc, u, mode, dirs, d0, n));
                if slider_target(bd, color, fr, fc, u, mode, dirs, d0) {
                    let (d, m) = choose|d: int, m: int| 0 <= d < d0 && #[trigger] slide_hits(bd, color, fr, fc, u, mode, dirs[d].0 as int, dirs[d].1 as int, m);
                    lemma_rays_disjoint(dirs, d, m, d0, n);
                } else {
                    let m = choose|m: int| 1 <= m < n && #[trigger] slide_hits(bd, color, fr, fc, u, mode, dr, dc, m);
                    lemma_rays_disjoint(dirs, d0, m, d0, n);
                }
            }
        }
    }
}
// end of a direction: the square at distance n is not empty; it was appended iff it holds an enemy piece
pub proof fn lemma_close_dir(bd: [[Square; 12]; 12], color: PieceColor, fr: int, fc: int, mode: MoveGenerationMode, dirs: Seq<(i8, i8)>, d0: int, n: int, t: Point, before: Seq<Point>, now: Seq<Point>, lo: int)
    requires
        dirs == rook_dirs() || dirs == bishop_dirs(), 0 <= d0 < 4, 1 <= n <= 8, 0 <= lo <= before.len(),
        on_board(fr, fc), wf(bd),
        t.0 == fr + n * dirs[d0].0, t.1 == fc + n * dirs[d0].1, in_arr(t.0 as int, t.1 as int),
        clear(bd, fr, fc, dirs[d0].0 as int, dirs[d0].1 as int, n),
        at(bd, t.0 as int, t.1 as int) != Square::Empty,
        now == (if (at(bd, t.0 as int, t.1 as int) matches Square::Full(p) && p.color != color) { before.push(t) } else { before }),
        forall|i: int| lo <= i < before.len() ==> slider_partial(bd, color, fr, fc, #[trigger] before[i], mode, dirs, d0, n),
        forall|u: Point| #[trigger] slider_partial(bd, color, fr, fc, u, mode, dirs, d0, n) ==> has_from(before, lo, u),
        distinct_from(before, lo),
    ensures
        forall|i: int| lo <= i < now.len() ==> slider_target(bd, color, fr, fc, #[trigger] now[i], mode, dirs, d0 + 1),
        forall|u: Point| #[trigger] slider_target(bd, color, fr, fc, u, mode, dirs, d0 + 1) ==> has_from(now, lo, u),
        distinct_from(now, lo),
{
    let dr = dirs[d0].0 as int; let dc = dirs[d0].1 as int;
    let enemy = at(bd, t.0 as int, t.1 as int) matches Square::Full(p) && p.color != color;
    lemma_mul_unit(n, dr); lemma_mul_unit(n, dc);
    assert(enemy ==> n < 8 && slide_hits(bd, color, fr, fc, t, mode, dr, dc, n));
    assert forall|i: int| lo <= i < now.len() implies slider_target(bd, color, fr, fc, #[trigger] now[i], mode, dirs, d0 + 1) by {
        if i < before.len() {
            assert(now[i] == before[i]);
            let u = before[i];
            assert(slider_partial(bd, color, fr, fc, u, mode, dirs, d0, n));
            if slider_target(bd, color, fr, fc, u, mode, dirs, d0) {
                let (d, m) = choose|d: int, m: int| 0 <= d < d0 && #[trigger] slide_hits(bd, color, fr, fc, u, mode, dirs[d].0 as int, dirs[d].1 as int, m);
                assert(slide_hits(bd, color, fr, fc, u, mode, dirs[d].0 as int, dirs[d].1 as int, m));
            } else {
                let m = choose|m: int| 1 <= m < n && #[trigger] slide_hits(bd, color, fr, fc, u, mode, dr, dc, m);
                assert(slide_hits(bd, color, fr, fc, u, mode, dirs[d0].0 as int, dirs[d0].1 as int, m));
            }
        } else {
            assert(now[i] == t);
            assert(slide_hits(bd, color, fr, fc, t, mode, dirs[d0].0 as int, dirs[d0].1 as int, n));
        }
    }
    assert forall|u: Point| #[trigger] slider_target(bd, color, fr, fc, u, mode, dirs, d0 + 1) implies has_from(now, lo, u) by {
        let (d, m) = choose|d: int, m: int| 0 <= d < d0 + 1 && #[trigger] slide_hits(bd, color, fr, fc, u, mode, dirs[d].0 as int, dirs[d].1 as int, m);
        if d < d0 {
            assert(slider_target(bd, color, fr, fc, u, mode, dirs, d0));
            assert(slider_partial(bd, color, fr, fc, u, mode, dirs, d0, n));
            let i = choose|i: int| lo <= i < before.len() && #[trigger] before[i] == u;
            assert(now[i] == u);
        } else if m < n {
            assert(slide_upto(bd, color, fr, fc, u, mode, dr, dc, n));
            assert(slider_partial(bd, color, fr, fc, u, mode, dirs, d0, n));
            let i = choose|i: int| lo <= i < before.len() && #[trigger] before[i] == u;
            assert(now[i] == u);
        } else if m == n {
            assert(u == t);
            assert(enemy);
            assert(now[before.len() as int] == t);
        } else {
            // beyond a non-empty square: the path is not clear
            assert(at(bd, fr + n * dr, fc + n * dc) == Square::Empty);
        }
    }
    assert(distinct_from(now, lo)) by {
        if enemy {
            assert forall|i: int| lo <= i < before.len() implies before[i] != t by {
                let u = before[i];
                assert(slider_partial(bd, color, fr, fc, u, mode, dirs, d0, n));
                if slider_target(bd, color, fr, fc, u, mode, dirs, d0) {
                    let (d, m) = choose|d: int, m: int| 0 <= d < d0 && #[trigger] slide_hits(bd, color, fr, fc, u, mode, dirs[d].0 as int, dirs[d].1 as int, m);
                    lemma_rays_disjoint(dirs, d, m, d0, n);
                } else {
                    let m = choose|m: int| 1 <= m < n && #[trigger] slide_hits(bd, color, fr, fc, u, mode, dr, dc, m);
                    lemma_rays_disjoint(dirs, d0, m, d0, n);
                }
            }
        }
    }
}
// geometry: two different (direction, distance) pairs from the same square reach different squares
pub proof fn lemma_rays_disjoint(dirs: Seq<(i8, i8)>, d1: int, n1: int, d2: int, n2: int)
    requires
        dirs == rook_dirs() || dirs == bishop_dirs(),
        0 <= d1 < 4, 0 <= d2 < 4, 1 <= n1 < 8, 1 <= n2 < 8, !(d1 == d2 && n1 == n2),
    ensures !(n1 * dirs[d1].0 == n2 * dirs[d2].0 && n1 * dirs[d1].1 == n2 * dirs[d2].1)
{
    lemma_mul_unit(n1, dirs[d1].0 as int); lemma_mul_unit(n1, dirs[d1].1 as int);
    lemma_mul_unit(n2, dirs[d2].0 as int); lemma_mul_unit(n2, dirs[d2].1 as int);
}
"""
def slider_ann(D, fname):
    pre = MODE_REQ + ['wf(board.board)', 'on_board(row_0, col_0)', 'appended(old(moves)@, moves@)', 'distinct_from(moves@, old(moves)@.len() as int)']
    outer = {
        'iter': 'it',
        'invariant': pre + ['row_0 == row as int', 'col_0 == col as int',
            'forall|i: int| old(moves)@.len() <= i < moves@.len() ==> slider_target(board.board, piece.color, row_0, col_0, #[trigger] moves@[i], move_generation_mode, %s, it.index@)' % D,
            'forall|t: Point| #[trigger] slider_target(board.board, piece.color, row_0, col_0, t, move_generation_mode, %s, it.index@) ==> has_from(moves@, old(moves)@.len() as int, t)' % D,
        ],
        'body_start': 'let ghost mut n: int = 1; proof { assert(%s[it.index@] == (*r, *c)); }' % D,
        'body_end': '''proof {
            let lo = old(moves)@.len() as int;
            let enemy = at(board.board, t2.0 as int, t2.1 as int) matches Square::Full(p) && p.color != piece.color;
            if enemy { assert(moves@ == before2.push(t2)); } else { assert(moves@ == before2); }
            lemma_close_dir(board.board, piece.color, row_0, col_0, move_generation_mode, %s, it.index@, n2, t2, before2, moves@, lo);
        }''' % D,
    }
    P = 'board.board, piece.color, row_0, col_0'
    inner = {
        'invariant': pre + [
            '0 <= it.index@ < 4', '%s[it.index@] == (*r, *c)' % D,
            '-1 <= *r <= 1', '-1 <= *c <= 1', '(*r != 0 || *c != 0)',
            '1 <= n <= 8', 'on_board(row as int, col as int) ==> n <= 7',
            'row == row_0 + n * *r', 'col == col_0 + n * *c',
            'in_arr(row as int, col as int)',
            'square == at(board.board, row as int, col as int)',
            'clear(board.board, row_0, col_0, *r as int, *c as int, n)',
            'forall|i: int| old(moves)@.len() <= i < moves@.len() ==> slider_partial(%s, #[trigger] moves@[i], move_generation_mode, %s, it.index@, n)' % (P, D),
            'forall|t: Point| #[trigger] slider_partial(%s, t, move_generation_mode, %s, it.index@, n) ==> has_from(moves@, old(moves)@.len() as int, t)' % (P, D),
        ],
        'decreases': '100 - n',
        'body_start': """let ghost before = moves@;
            proof {
                axiom_i8_add_assign_ref();
                assert(on_board(row as int, col as int));
                lemma_mul_unit(n, *r as int); lemma_mul_unit(n, *c as int);
                lemma_mul_unit(n + 1, *r as int); lemma_mul_unit(n + 1, *c as int);
            }
            let ghost t = Point(row as usize, col as usize);""",
        'body_end': """proof {
                let lo = old(moves)@.len() as int; let d0 = it.index@; let dr = *r as int; let dc = *c as int;
                let all = move_generation_mode == MoveGenerationMode::AllMoves;
                assert(at(board.board, t.0 as int, t.1 as int) == Square::Empty);
                assert(slide_hits(%(P)s, t, move_generation_mode, dr, dc, n) == all);
                if all { assert(moves@ == before.push(t)); assert(moves@[before.len() as int] == t); } else { assert(moves@ == before); }
                lemma_partial_step(%(P)s, move_generation_mode, %(D)s, d0, n, t, before, moves@, lo);
                n = n + 1;
            }""" % {'P': P, 'D': D},
        'after': """proof {
            let lo = old(moves)@.len() as int; let d0 = it.index@; let dr = *r as int; let dc = *c as int;
            lemma_mul_unit(n, dr); lemma_mul_unit(n, dc);
        }
        let ghost before2 = moves@; let ghost t2 = Point(row as usize, col as usize); let ghost n2 = n;""",
    }
    return outer, inner

def pawn_ann():
    P = "board.board, piece.color, row as int, col as int"
    def arm_proof(fwd, lc, rc):
        # lc / rc: column offsets of the engine's "left" and "right" capture for this colour
        return """proof {
                let lo = old(moves)@.len() as int; let v = moves@;
                let l = Point((row + (%(fwd)s)) as usize, (col + (%(lc)s)) as usize);
                let r = Point((row + (%(fwd)s)) as usize, (col + (%(rc)s)) as usize);
                let p1 = Point((row + (%(fwd)s)) as usize, col); let p2 = Point((row + 2 * (%(fwd)s)) as usize, col);
                // how the vector grew: m0 -> m1 (left capture) -> m2 (right capture) -> v (pushes)
                assert(m1 == m0 || m1 == m0.push(l));
                assert(m2 == m1 || m2 == m1.push(r));
                assert(v == m2 || v == m2.push(p1) || v == m2.push(p1).push(p2));
                assert forall|t: Point| #[trigger] pawn_target(%(P)s, t, move_generation_mode) implies has_from(v, lo, t) by {
                    if t == l { assert(m1 == m0.push(l)); assert(v[m0.len() as int] == l); }
                    else if t == r { assert(m2 == m1.push(r)); assert(v[m1.len() as int] == r); }
                    else if t == p1 { assert(v[m2.len() as int] == p1); }
                    else { assert(t == p2); assert(v == m2.push(p1).push(p2)); assert(v[m2.len() as int + 1] == p2); }
                }
                assert forall|i: int| lo <= i < v.len() implies pawn_target(%(P)s, #[trigger] v[i], move_generation_mode) by {
                    if i < m0.len() { }
                    else if i < m1.len() { assert(v[i] == l); }
                    else if i < m2.len() { assert(v[i] == r); }
                    else if i == m2.len() { assert(v[i] == p1); }
                    else { assert(v[i] == p2); }
                }
            }""" % {'fwd': fwd, 'lc': lc, 'rc': rc, 'P': P}
    return {
        'requires': ['wf(board.board)', 'on_board(row as int, col as int)', 'old(moves)@.len() == 0'] + MODE_REQ,
        'ensures': ['appended(old(moves)@, final(moves)@)',
            'forall|i: int| old(moves)@.len() <= i < final(moves)@.len() ==> pawn_target(%s, #[trigger] final(moves)@[i], move_generation_mode)' % P,
            'forall|t: Point| #[trigger] pawn_target(%s, t, move_generation_mode) ==> has_from(final(moves)@, old(moves)@.len() as int, t)' % P,
            'distinct_from(final(moves)@, old(moves)@.len() as int)'],
        'body_start': 'let ghost m0 = moves@;',
        'before_text': [
            ('if let Square::Full(Piece { color: Black, .. }) = right_cap {', 0, 'let ghost m1 = moves@;'),
            ('// check a normal push', 0, 'let ghost m2 = moves@;'),
            ('        }\n        // black pawns move down board', 0, arm_proof('-1int', '-1int', '1int')),
            ('if let Square::Full(Piece { color: White, .. }) = right_cap {', 0, 'let ghost m1 = moves@;'),
            ('// check a normal push', 1, 'let ghost m2 = moves@;'),
            ('        }\n    }\n}', 0, arm_proof('1int', '1int', '-1int')),
        ],
    }

def king_ann():
    P = "board.board, piece.color, row_0, col_0"
    inv = lambda i, j: MODE_REQ + [
        'wf(board.board)', 'on_board(row_0, col_0)', 'at(board.board, row_0, col_0) == Square::Full(piece)',
        'appended(old(moves)@, moves@)', 'distinct_from(moves@, old(moves)@.len() as int)',
        'forall|k: int| old(moves)@.len() <= k < moves@.len() ==> king_target_upto(%s, #[trigger] moves@[k], move_generation_mode, %s, %s)' % (P, i, j),
        'forall|u: Point| #[trigger] king_target_upto(%s, u, move_generation_mode, %s, %s) ==> has_from(moves@, old(moves)@.len() as int, u)' % (P, i, j),
    ]
    return {
        'fn_attr': '#[verifier::loop_isolation(false)]',   # a call hoisted out of the loops keeps its postcondition inside them (N9)
        'requires': ['wf(board.board)', 'on_board(row as int, col as int)', 'at(board.board, row as int, col as int) == Square::Full(piece)'] + MODE_REQ,
        'ensures': ['appended(old(moves)@, final(moves)@)',
            'forall|k: int| old(moves)@.len() <= k < final(moves)@.len() ==> king_target(board.board, piece.color, row as int, col as int, #[trigger] final(moves)@[k], move_generation_mode)',
            'forall|t: Point| #[trigger] king_target(board.board, piece.color, row as int, col as int, t, move_generation_mode) ==> has_from(final(moves)@, old(moves)@.len() as int, t)',
            'distinct_from(final(moves)@, old(moves)@.len() as int)'],
        'body_start': '''let ghost row_0 = row as int; let ghost col_0 = col as int;
    proof { assert forall|u: Point| !(#[trigger] king_target_upto(%s, u, move_generation_mode, 0, 0)) by {} }''' % P,
        'loops': {
            0: {'iter': 'iti', 'body_start_unused': '''proof { assert forall|u: Point| #[trigger] king_target_upto(%s, u, move_generation_mode, i as int, 0) implies has_from(moves@, old(moves)@.len() as int, u) by {} }''' % P,
                'body_end': '''proof { assert forall|u: Point| #[trigger] king_target_upto(%s, u, move_generation_mode, i as int + 1, 0) implies has_from(moves@, old(moves)@.len() as int, u) by {
                    assert(king_target_upto(%s, u, move_generation_mode, i as int, 3));
                }
                assert forall|k: int| old(moves)@.len() <= k < moves@.len() implies king_target_upto(%s, #[trigger] moves@[k], move_generation_mode, i as int + 1, 0) by {
                    assert(king_target_upto(%s, moves@[k], move_generation_mode, i as int, 3));
                } }''' % (P, P, P, P), 'invariant': inv('iti.index@', '0') + ['row_0 == row as int', 'col_0 == col as int', '0 <= i <= 3', 'i == iti.index@']},
            1: {'iter': 'itj', 'invariant': inv('i as int', 'itj.index@') + ['row == row_0 + i - 1', 'col_0 == col as int', '0 <= i < 3', '0 <= j <= 3', 'j == itj.index@'],
                'body_start': 'let ghost before = moves@;',
                'body_end': """proof {
                let t = Point(row, col);
                let kt = king_target(%(P)s, t, move_generation_mode);
                if kt { assert(moves@ == before.push(t)); } else { assert(moves@ == before); }
                lemma_king_cell(%(P)s, move_generation_mode, i as int, j as int, t, before, moves@, old(moves)@.len() as int);
            }""" % {'P': P}},
        },
        'at_end': """proof {
        assert forall|t: Point| #[trigger] king_target(%(P)s, t, move_generation_mode) implies has_from(moves@, old(moves)@.len() as int, t) by {
            assert(king_target_upto(%(P)s, t, move_generation_mode, 3, 0));
        }
    }""" % {'P': P},
    }

SPEC_L1 = r'''
pub open spec fn opp_dir(dirs: Seq<(i8, i8)>, d: int) -> int {
    if dirs == rook_dirs() { if d == 0 { 1 } else if d == 1 { 0 } else if d == 2 { 3 } else { 2 } }
    else { if d == 0 { 2 } else if d == 1 { 3 } else if d == 2 { 0 } else { 1 } }
}
// ray symmetry: the squares strictly between A and B are the same seen from either end
pub proof fn lemma_clear_sym(bd: [[Square; 12]; 12], fr: int, fc: int, dr: int, dc: int, n: int)
    requires clear(bd, fr, fc, dr, dc, n), -1 <= dr <= 1, -1 <= dc <= 1, 1 <= n
    ensures clear(bd, fr + n * dr, fc + n * dc, -dr, -dc, n)
{
    assert forall|k: int| 1 <= k < n implies #[trigger] at(bd, (fr + n * dr) + k * (-dr), (fc + n * dc) + k * (-dc)) == Square::Empty by {
        lemma_mul_unit(n, dr); lemma_mul_unit(n, dc); lemma_mul_unit(k, -dr); lemma_mul_unit(k, -dc); lemma_mul_unit(n - k, dr); lemma_mul_unit(n - k, dc);
        assert(at(bd, fr + (n - k) * dr, fc + (n - k) * dc) == Square::Empty);
    }
}
// a rook/bishop/queen of colour `by` on (fr,fc) that can slide onto t attacks t
pub proof fn lemma_slider_target_attacked(bd: [[Square; 12]; 12], by: PieceColor, kind: PieceKind, fr: int, fc: int, t: Point, mode: MoveGenerationMode, dirs: Seq<(i8, i8)>)
    requires
        wf(bd), on_board(fr, fc),
        (dirs == rook_dirs() && (kind == Rook || kind == Queen)) || (dirs == bishop_dirs() && (kind == Bishop || kind == Queen)),
        at(bd, fr, fc) == Square::Full(Piece { kind: kind, color: by }),
        slider_target(bd, by, fr, fc, t, mode, dirs, 4),
    ensures attacked_by(bd, by, t.0 as int, t.1 as int)
{
    reveal(attacked_by);
    let (d, n) = choose|d: int, n: int| 0 <= d < 4 && #[trigger] slide_hits(bd, by, fr, fc, t, mode, dirs[d].0 as int, dirs[d].1 as int, n);
    let dr = dirs[d].0 as int; let dc = dirs[d].1 as int;
    let e = opp_dir(dirs, d);
    assert(dirs[e].0 == -dr && dirs[e].1 == -dc);
    lemma_clear_sym(bd, fr, fc, dr, dc, n);
    lemma_mul_unit(n, dr); lemma_mul_unit(n, dc); lemma_mul_unit(n, -dr); lemma_mul_unit(n, -dc);
    let tr = t.0 as int; let tc = t.1 as int;
    assert(tr + n * (-dr) == fr && tc + n * (-dc) == fc);
    let pk = if dirs == rook_dirs() { Rook } else { Bishop };
    assert(ray_hits(bd, tr, tc, -dr, -dc, Piece { kind: kind, color: by }));
    assert(line_hits(bd, by, tr, tc, dirs, pk, e));
    assert(line_attack_upto(bd, by, tr, tc, dirs, pk, 4));
}
pub proof fn lemma_knight_target_attacked(bd: [[Square; 12]; 12], by: PieceColor, fr: int, fc: int, t: Point, mode: MoveGenerationMode)
    requires wf(bd), on_board(fr, fc), at(bd, fr, fc) == Square::Full(Piece { kind: Knight, color: by }), knight_target(bd, by, fr, fc, t, mode)
    ensures attacked_by(bd, by, t.0 as int, t.1 as int)
{
    reveal(attacked_by);
    let d = choose|d: int| 0 <= d < 8 && #[trigger] from_offset(t, fr, fc, knight_dirs(), d) && land_ok(bd, by, t.0 as int, t.1 as int, mode);
    // the opposite offset is also a knight offset
    let e = if d == 0 { 5int } else if d == 1 { 4 } else if d == 2 { 6 } else if d == 3 { 7 } else if d == 4 { 1 } else if d == 5 { 0 } else if d == 6 { 2 } else { 3 };
    assert(knight_dirs()[e].0 == -knight_dirs()[d].0 && knight_dirs()[e].1 == -knight_dirs()[d].1);
    assert(knight_hits(bd, by, t.0 as int, t.1 as int, e));
}
'''
SPEC_L2 = r'''
// glue between the A-contracts and the successor loop: in a position where the side not to move is not in check,
// no target of the mover's piece is a king, so the successor keeps one king per side
pub proof fn lemma_target_not_king(b: &BoardState, fr: int, fc: int, t: Point, mode: MoveGenerationMode)
    requires
        wf(b.board), kings_ok(b), on_board(fr, fc),
        at(b.board, fr, fc) matches Square::Full(p) && p.color == b.to_move,
        !attacked_by(b.board, b.to_move, enemy_king_sq(b).0 as int, enemy_king_sq(b).1 as int),
        pseudo_target_def(b, fr, fc, t, mode),
    ensures
        on_board(t.0 as int, t.1 as int), !(t.0 == fr && t.1 == fc),
        match at(b.board, t.0 as int, t.1 as int) { Square::Full(q) => q.color != b.to_move && q.kind != King, _ => true },
{
    reveal(kings_ok);
    let p = match at(b.board, fr, fc) { Square::Full(p) => p, _ => arbitrary() };
    let by = b.to_move;
    let ek = enemy_king_sq(b);
    // t holds the enemy king only if t is the cached enemy king square; but then that square would be attacked
    match p.kind {
        Knight => {
            let d = choose|d: int| 0 <= d < 8 && #[trigger] from_offset(t, fr, fc, knight_dirs(), d) && land_ok(b.board, by, t.0 as int, t.1 as int, mode);
            lemma_knight_target_attacked(b.board, by, fr, fc, t, mode);
        },
        Rook => { lemma_slider_on_board(b.board, by, fr, fc, t, mode, rook_dirs()); lemma_slider_target_attacked(b.board, by, Rook, fr, fc, t, mode, rook_dirs()); },
        Bishop => { lemma_slider_on_board(b.board, by, fr, fc, t, mode, bishop_dirs()); lemma_slider_target_attacked(b.board, by, Bishop, fr, fc, t, mode, bishop_dirs()); },
        Queen => {
            if slider_target(b.board, by, fr, fc, t, mode, rook_dirs(), 4) { lemma_slider_on_board(b.board, by, fr, fc, t, mode, rook_dirs()); lemma_slider_target_attacked(b.board, by, Queen, fr, fc, t, mode, rook_dirs()); }
            else { lemma_slider_on_board(b.board, by, fr, fc, t, mode, bishop_dirs()); lemma_slider_target_attacked(b.board, by, Queen, fr, fc, t, mode, bishop_dirs()); }
        },
        King => {
            reveal(attacked_by);
            if at(b.board, t.0 as int, t.1 as int) == Square::Full(Piece { kind: King, color: opp(by) }) {
                assert(king_attack(b.board, by, t.0 as int, t.1 as int)) by { assert(at(b.board, fr, fc) == Square::Full(Piece { kind: King, color: by })); }
            }
        },
        Pawn => {
            reveal(attacked_by);
            if at(b.board, t.0 as int, t.1 as int) == Square::Full(Piece { kind: King, color: opp(by) }) {
                assert(pawn_attack(b.board, by, t.0 as int, t.1 as int));
            }
        },
    }
}
// a slider target lies on the board and is not the origin
pub proof fn lemma_slider_on_board(bd: [[Square; 12]; 12], by: PieceColor, fr: int, fc: int, t: Point, mode: MoveGenerationMode, dirs: Seq<(i8, i8)>)
    requires wf(bd), on_board(fr, fc), dirs == rook_dirs() || dirs == bishop_dirs(), slider_target(bd, by, fr, fc, t, mode, dirs, 4)
    ensures on_board(t.0 as int, t.1 as int), !(t.0 == fr && t.1 == fc)
{
    let (d, n) = choose|d: int, n: int| 0 <= d < 4 && #[trigger] slide_hits(bd, by, fr, fc, t, mode, dirs[d].0 as int, dirs[d].1 as int, n);
    lemma_mul_unit(n, dirs[d].0 as int); lemma_mul_unit(n, dirs[d].1 as int);
}
'''

A_ENS = lambda pred: ['appended(old(moves)@, final(moves)@)',
    'forall|i: int| old(moves)@.len() <= i < final(moves)@.len() ==> ' + pred % '#[trigger] final(moves)@[i]',
    'forall|t: Point| #[trigger] ' + pred % 't' + ' ==> has_from(final(moves)@, old(moves)@.len() as int, t)',
    'distinct_from(final(moves)@, old(moves)@.len() as int)']
SPEC_Q = r"""
// a rook-line target is never a bishop-line target (the queen's two halves do not overlap)
pub proof fn lemma_rook_bishop_disjoint(bd: [[Square; 12]; 12], color: PieceColor, fr: int, fc: int, t: Point, mode: MoveGenerationMode)
    ensures !(slider_target(bd, color, fr, fc, t, mode, rook_dirs(), 4) && slider_target(bd, color, fr, fc, t, mode, bishop_dirs(), 4))
{
    if slider_target(bd, color, fr, fc, t, mode, rook_dirs(), 4) && slider_target(bd, color, fr, fc, t, mode, bishop_dirs(), 4) {
        let (d, n) = choose|d: int, n: int| 0 <= d < 4 && #[trigger] slide_hits(bd, color, fr, fc, t, mode, rook_dirs()[d].0 as int, rook_dirs()[d].1 as int, n);
        let (e, m) = choose|e: int, m: int| 0 <= e < 4 && #[trigger] slide_hits(bd, color, fr, fc, t, mode, bishop_dirs()[e].0 as int, bishop_dirs()[e].1 as int, m);
        lemma_mul_unit(n, rook_dirs()[d].0 as int); lemma_mul_unit(n, rook_dirs()[d].1 as int);
        lemma_mul_unit(m, bishop_dirs()[e].0 as int); lemma_mul_unit(m, bishop_dirs()[e].1 as int);
    }
}
"""
QP = 'board.board, piece.color, row as int, col as int'
QUEEN = {
    'requires': ['wf(board.board)', 'on_board(row as int, col as int)'] + MODE_REQ,
    'ensures': A_ENS('queen_target(' + QP + ', %s, move_generation_mode)'),
    'body_start': 'let ghost m0 = moves@;',
    'before_text': [('bishop_moves(piece, row, col, board, moves, move_generation_mode);', 0, 'let ghost m1 = moves@;')],
    'at_end': """proof {
        let lo = m0.len() as int; let v = moves@;
        assert forall|i: int| lo <= i < v.len() implies queen_target(%(P)s, #[trigger] v[i], move_generation_mode) by {
            if i < m1.len() { assert(v[i] == m1[i]); }
        }
        assert forall|t: Point| #[trigger] queen_target(%(P)s, t, move_generation_mode) implies has_from(v, lo, t) by {
            if slider_target(%(P)s, t, move_generation_mode, rook_dirs(), 4) {
                assert(has_from(m1, lo, t));
                let i = choose|i: int| lo <= i < m1.len() && #[trigger] m1[i] == t;
                assert(v[i] == t);
            } else {
                assert(has_from(v, m1.len() as int, t));
                let i = choose|i: int| m1.len() <= i < v.len() && #[trigger] v[i] == t;
                assert(v[i] == t);
            }
        }
        assert(distinct_from(v, lo)) by {
            assert forall|i: int, j: int| lo <= i < j < v.len() implies v[i] != v[j] by {
                if j < m1.len() { assert(v[i] == m1[i] && v[j] == m1[j]); }
                else if i < m1.len() { assert(v[i] == m1[i]); lemma_rook_bishop_disjoint(%(P)s, v[j], move_generation_mode); }
            }
        }
    }""" % {'P': QP},
    'expect': {'loops': []},
}
GP = 'board, row as int, col as int'
GET_MOVES = {
    'requires': ['wf(board.board)', 'kings_ok(board)', 'on_board(row as int, col as int)',
                 'at(board.board, row as int, col as int) == Square::Full(piece)', 'piece.color == board.to_move',
                 '!attacked_by(board.board, board.to_move, enemy_king_sq(board).0 as int, enemy_king_sq(board).1 as int)',
                 'old(moves)@.len() == 0'] + MODE_REQ,
    'ensures': [
        'forall|i: int| 0 <= i < final(moves)@.len() ==> pseudo_target(%s, #[trigger] final(moves)@[i], move_generation_mode) && target_ok(%s, final(moves)@[i])' % (GP, GP),
        'forall|t: Point| #[trigger] pseudo_target(%s, t, move_generation_mode) ==> exists|i: int| 0 <= i < final(moves)@.len() && #[trigger] final(moves)@[i] == t' % GP,
        'forall|i: int, j: int| 0 <= i < j < final(moves)@.len() ==> final(moves)@[i] != final(moves)@[j]',
    ],
    'at_end': """proof {
        reveal(pseudo_target);
        let v = moves@;
        assert forall|i: int| 0 <= i < v.len() implies pseudo_target(%(P)s, #[trigger] v[i], move_generation_mode) && target_ok(%(P)s, v[i]) by {
            assert(pseudo_target_def(%(P)s, v[i], move_generation_mode));
            lemma_target_not_king(board, row as int, col as int, v[i], move_generation_mode);
        }
        assert forall|t: Point| #[trigger] pseudo_target(%(P)s, t, move_generation_mode) implies exists|i: int| 0 <= i < v.len() && #[trigger] v[i] == t by {
            assert(has_from(v, 0, t));
            let i = choose|i: int| 0 <= i < v.len() && #[trigger] v[i] == t;
            assert(v[i] == t);
        }
    }""" % {'P': GP},
    'expect': {'loops': []},
}

P = ('C01', 'C02', 'C05', 'C13')
OWN = ('C01', 'C13')   # exact target sets are C01/C13's business; for C02/C05 they are support
A_ENS = lambda pred: ['appended(old(moves)@, final(moves)@)',
    'forall|i: int| old(moves)@.len() <= i < final(moves)@.len() ==> ' + pred % '#[trigger] final(moves)@[i]',
    'forall|t: Point| #[trigger] ' + pred % 't' + ' ==> has_from(final(moves)@, old(moves)@.len() as int, t)',
    'distinct_from(final(moves)@, old(moves)@.len() as int)']

def build(g):
    o, i = slider_ann('rook_dirs()', 'rook_moves')
    RK = {'requires': ['wf(board.board)', 'on_board(row as int, col as int)'] + MODE_REQ,
          'ensures': A_ENS('slider_target(board.board, piece.color, row as int, col as int, %s, move_generation_mode, rook_dirs(), 4)'),
          'body_start': 'let ghost row_0 = row as int; let ghost col_0 = col as int;',
          'loops': {0: o, 1: i}, 'expect': {'loops': ['for', 'while'], 'contains': ['&[(1, 0), (-1, 0), (0, 1), (0, -1)]']}}
    ob, ib = slider_ann('bishop_dirs()', 'bishop_moves')
    BK = dict(RK); BK['ensures'] = [e.replace('rook_dirs()', 'bishop_dirs()') for e in RK['ensures']]; BK['loops'] = {0: ob, 1: ib}; BK['expect'] = {'loops': ['for', 'while'], 'contains': ['&[(1, -1), (1, 1), (-1, 1), (-1, -1)]']}
    g.add(SPEC_K, SPEC_SL)
    g.add('impl Square {',
          g.fn('board', 'is_empty_or_color', {'ret': 'res', 'ensures': ['res == (match self { Square::Full(p) => p.color == color, Square::Empty => true, _ => false })']}, impl='Square', qual='Square::is_empty_or_color', props=P, own=OWN),
          g.fn('board', 'is_color', {'ret': 'res', 'ensures': ['res == (match self { Square::Full(p) => p.color == color, _ => false })']}, impl='Square', qual='Square::is_color', props=P, own=OWN),
          '}')
    g.add(g.fn('move_generation', 'knight_moves', KN, props=P, own=OWN))
    g.add(g.fn('move_generation', 'rook_moves', RK, props=P, own=OWN))
    g.add(g.fn('move_generation', 'bishop_moves', BK, props=P, own=OWN))
    g.add(g.fn('move_generation', 'pawn_moves', pawn_ann(), props=P, own=OWN))
    g.add(g.fn('move_generation', 'king_moves', king_ann(), props=P, own=OWN))
    g.add(SPEC_L1, SPEC_L2, SPEC_Q)
    g.add(g.fn('move_generation', 'queen_moves', QUEEN, props=P, own=OWN))
    g.add(g.fn('move_generation', 'get_moves', GET_MOVES, props=P, own=OWN))
