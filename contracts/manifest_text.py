"""Texts for MANIFEST.json (kept next to the contracts so that they are updated together)."""
SOURCE_COMMITS = ['b5b9d97 fix: treat a position already seen more than twice as a repetition draw']
ENGINES = [
    {'name': 'verus-contracts', 'path': 'check', 'serves_properties': ['C05', 'C06', 'C10', 'C14'],
     'kind_free_text': 'Verus 0.2026.09.13: requires/ensures/invariant/decreases inserted into functions copied byte-for-byte from /repo/src on every run; one verifier process per unit'},
]
NOTES = ('Technique family: contract-based deductive verification of the real code. exit 0 = all obligations discharged; '
         'exit 1 = VIOLATION line (a previously discharged obligation now fails; replay file carries the obligation, verifier output and, when found, a failing input); '
         'exit 2 = UNDECIDED (lost anchor / front-end rejection / persistent rlimit), never an alarm. See DESIGN.md.')

PENDING = 'check not yet built in this commit (planned, see DESIGN.md section 4); listed here until its check is registered'
NOT_APPLICABLE = {
    'C01': PENDING, 'C02': PENDING, 'C04': PENDING, 'C09': PENDING, 'C13': PENDING, 'C15': PENDING,
    'C03': 'two threads, an mpsc channel, a polling loop on the wall clock and stdout: no function-level contract states "exactly one bestmove", Kani has no threads, and get_best_move/alpha_beta_search are outside the Verus subset (closures, sort_unstable_by_key, iterator adaptors); the sequential ingredients are covered by C01/C02/C04',
    'C07': 'needs a contract on the recursive search with ghost clock state; the search body is outside the Verus subset and CBMC cannot unroll it; enumerating expiry points is fault injection, a different family',
    'C08': 'liveness/latency of a two-thread polling loop: no contract over one call expresses "eventually prints within the slice"',
    'C11': 'statement about values returned by alpha_beta_search/quiesce/get_best_move (see C07): outside both verifiers',
    'C12': 'exact minimax equality of the search (see C07): outside both verifiers',
    'C16': 'session histories over a process (read-dispatch loop, threads, stdout): not expressible as a function contract within reach',
    'C17': 'process lifecycle, EOF and unknown-input handling of the read loop: process-level behaviour, not a function contract within reach',
    'C18': 'formatted search output under the clock (send_search_info inside the search): outside both verifiers',
}
CHECKS = {
    'C05': {
        'text': 'Unbounded proof (work in progress: this commit covers the four BoardState mutators and the hasher getters): each mutator has an exact frame+effect contract in struct-update form and preserves key_ok(b,h) := b.zobrist_key == hash_of(b,h), where hash_of is the from-scratch XOR over the 64 squares, side, four rights and en-passant file, for ANY table contents.',
        'design_ref': 'DESIGN.md 4/C05',
        'note': 'Trusted: Verus+Z3+rustc, extractor, two arithmetic axioms. Not decided: from_fen builds the key from scratch (string code outside both verifiers); generator and text-applier key updates are added by the movegen/uci bundles.',
        'technique': 'Verus contracts: key_ok as a representation invariant preserved by every mutator',
    },
    'C10': {
        'text': 'Unbounded proof for the table operations: new/clear give the empty table, add_board_to_draw_table changes exactly one count by one (frame over all other keys), is_threefold_repetition leaves the table unchanged and answers exactly "already seen at least twice". Over vstd\'s HashMap model.',
        'design_ref': 'DESIGN.md 4/C10',
        'note': 'Not decided and said so: the position handler loop in play_out_position (clear/insert/add per move) and the whole search clause (score never below zero) are outside both verifiers; positions are identified with 64-bit keys (collisions not excluded); remove_board_from_draw_table is outside the Verus subset (Some(&val) pattern).',
        'technique': 'Verus contracts on DrawTable over the vstd HashMap model',
    },
    'C14': {
        'text': 'Unbounded proof: get_evaluation(b) == eval_spec(placement, side) (so it depends on nothing else), and three lemmas over eval_spec for ALL placements: mirrored twin evaluates equal, other side to move negates, |eval| <= 96000 < MATE_SCORE-15. Piece values/phase weights are taken from the function bodies, tables from the real consts, so retuning keeps verifying while asymmetry or overflow does not.',
        'design_ref': 'DESIGN.md 4/C14',
        'note': 'Trusted: Verus+Z3+rustc, extractor. The bound is proved for every placement (64 occupied squares), which is more than legal positions need; i32 overflow freedom is proved.',
        'technique': 'Verus contract get_evaluation == eval_spec + symmetry/negation/bound lemmas',
    },
    'C06': {
        'text': 'Unbounded proof: for every well-formed 12x12 mailbox with one king per side (cached squares correct) and both colours, is_check returns exactly attacked_by(placement, enemy, king square), where attacked_by is a rules-level spec (sliders stopped by the first piece, pawn diagonals forward only, knights, adjacent king). Discharged by Verus on the function text copied from /repo on every run, with loop invariants and termination; must-fail canaries guard against vacuity.',
        'design_ref': 'DESIGN.md 4/C06, 3.1-3.6',
        'note': 'Trusted: Verus+Z3+rustc; two arithmetic glue axioms (i8 += &i8, i8::abs); the byte-for-byte extractor. kings_ok (cache points at the kings) is a precondition, re-established by the successor contracts (C02/C04). No bound.',
        'technique': 'Verus function contracts + loop invariants on the real is_check/is_check_cords text',
    },
}
