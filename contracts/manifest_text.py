"""Texts for MANIFEST.json (kept next to the contracts so that they are updated together)."""
SOURCE_COMMITS = [
    'b5b9d97 fix: treat a position already seen more than twice as a repetition draw',
    "5410a4c fix: en passant and castling successors no longer inherit the parent's promotion piece",
    '9df51cc fix: capture-only generation finalises successors like full generation',
    '2e6d02f fix: a double pawn step answering a double step keeps the Zobrist key consistent',
    'dd33adc fix: castling squares are tested against the enemy king as well',
    '4550c06 fix: parsing a square never panics',
    '02985c8 fix: FEN move counters beyond 255 are accepted',
]
ENGINES = [
    {'name': 'verus-contracts', 'path': 'check', 'serves_properties': ['C01', 'C02', 'C04', 'C05', 'C06', 'C10', 'C13', 'C14'],
     'kind_free_text': 'Verus 0.2026.09.13: requires/ensures/invariant/decreases inserted into functions copied byte-for-byte from /repo/src on every run; one verifier process per unit'},
]
ENGINES.append({'name': 'kani-contracts', 'path': 'vlib/kani.py', 'serves_properties': ['C01', 'C02', 'C04', 'C05', 'C06', 'C09', 'C13', 'C15'],
                'kind_free_text': 'Kani 0.68 / CBMC 6.11: function contract (proof_for_contract) and loop-free or input-length-bounded harnesses over full symbolic domains, on a scratch crate = /repo/src + appended cfg(kani) modules'})
ENGINES.append({'name': 'native-bounded', 'path': 'replay/hunter.rs', 'serves_properties': ['C04', 'C05', 'C09', 'C10', 'C15'],
                'kind_free_text': 'BOUNDED stand-in (never counted as proved) for string code neither verifier reaches (from_fen, play_out_position): seeded native runs of the real functions against a rules oracle; also the counterexample hunter / replay tool for every property'})
NOTES = ('Technique family: contract-based deductive verification of the real code. exit 0 = all obligations discharged; '
         'exit 1 = VIOLATION line (a previously discharged obligation now fails; replay file carries the obligation, verifier output and, when found, a failing input); '
         'exit 2 = UNDECIDED (lost anchor / front-end rejection / persistent rlimit), never an alarm. See DESIGN.md.')

PENDING = 'check not yet built in this commit (planned, see DESIGN.md section 4); listed here until its check is registered'
NOT_APPLICABLE = {
    'C03': 'two threads, an mpsc channel, a polling loop on the wall clock and stdout: no function-level contract states "exactly one bestmove", Kani has no threads, and get_best_move/alpha_beta_search are outside the Verus subset (closures, sort_unstable_by_key, iterator adaptors); the sequential ingredients are covered by C01/C02/C04',
    'C07': 'needs a contract on the recursive search with ghost clock state; the search body is outside the Verus subset and CBMC cannot unroll it; enumerating expiry points is fault injection, a different family',
    'C08': 'liveness/latency of a two-thread polling loop: no contract over one call expresses "eventually prints within the slice"',
    'C11': 'statement about values returned by alpha_beta_search/quiesce/get_best_move (see C07): outside both verifiers',
    'C12': 'exact minimax equality of the search (see C07): outside both verifiers',
    'C16': 'session histories over a process (read-dispatch loop, threads, stdout): not expressible as a function contract within reach',
    'C17': 'process lifecycle, EOF and unknown-input handling of the read loop: process-level behaviour, not a function contract within reach',
    'C18': 'formatted search output under the clock (send_search_info inside the search): outside both verifiers',
}
CHECKS = {
    'C04': {
        'text': 'Unbounded proof for one `position ... moves` step: the real uci::make_move, under legal_position + key_ok + "the text names a legal move", leaves exactly pos_after / castle_pos_after -- the SAME spec functions the generator successors satisfy (C02) -- and key_ok. Hence replaying a move text equals following the engine successor (transitivity through one spec). The &str operations are abstracted by uninterpreted results tied by text_facts, which a Kani harness discharges on the REAL str/Point operations for all 20480 strings of the UCI move grammar (complete finite domain).',
        'design_ref': 'DESIGN.md 4/C04, 11',
        'note': 'Rewrites R3/R4 replace three text expressions by external_body helpers whose bodies are the original expressions (link Verus<->Kani by construction, not by a verifier). play_out_position (FEN re-assembly, moves scan, table loop) is string code outside both verifiers: BOUNDED native stand-in only (seeded random games against the rules oracle), labelled bounded, not counted. Induction over the move list is on paper.',
        'technique': 'Verus contract on the real make_move against the shared pos_after spec + Kani harnesses for the text operations',
        'engine': 'verus-contracts',
    },
    'C09': {
        'text': 'Proof (Kani function contract on the real GameTime::calculate_time_slice, loop-free, full i128 x Option<u32> domain, both colours, IEEE-754 bit-precise): with more than the 100 ms margin the slice never exceeds the MOVER clock; with no usable clock and no increment it is zero; a cover harness shows all three regimes reachable. The sharp "80% of (clock-margin)/moves-to-go" clause and side-independence are BOUNDED (quick: clock 101..355 ms, movestogo absent/1..3/31..33; thorough: i16 clock, movestogo absent or 1..64). parse_go_command routing: BOUNDED (native stand-in on seeded random go lines; thorough: Kani on the real function for every `go <key> <1-3 digit value>` line).',
        'design_ref': 'DESIGN.md 4/C09',
        'note': 'Trusted: Kani/CBMC/CaDiCaL. Precondition movestogo >= 1. Not decided: actual wall-clock delay; go lines beyond the bounded domains.',
        'technique': 'Kani function contract (proof_for_contract) over the full input domain',
        'engine': 'kani-contracts',
    },
    'C15': {
        'text': 'Proof for the en-passant-square parser only: Point::from_str on every valid-UTF-8 byte string of length <= 4 never panics, returns Ok exactly for [a-h][1-8] and then the right square (Kani, loops bounded by input length with unwinding assertions). Everything else in from_fen is outside both verifiers (measured, DESIGN App. B) and is covered only by a BOUNDED native stand-in: seeded mutated FEN texts never panic, oracle-generated FENs of legal positions (counters up to 65535) load to exactly that position and from-scratch key.',
        'design_ref': 'DESIGN.md 4/C15',
        'note': 'The from_fen clauses are labelled bounded and not counted as proved; CLI behaviour not covered.',
        'technique': 'Kani harness over all short strings for Point::from_str; bounded native stand-in for from_fen',
        'engine': 'kani-contracts',
    },
    'C01': {
        'text': 'Unbounded proof of the statement itself on the real generate_moves: for every legal_position (wf mailbox, one king per side with correct cache, side not to move not in check, no pawns on back ranks, rights only with king and rook at home, en-passant target only behind a just-double-stepped pawn) and AllMoves, the returned vector is (i) sound: every element names a legal_move, (ii) complete: every legal_move occurs, (iii) duplicate-free. legal_move is a rules-level spec (per-kind movement geometry, own king not attacked after the move, FIDE castling conditions incl. squares attacked by the enemy king, en passant only onto the recorded target). Every function on the call chain is under contract: the six piece generators and get_moves (exact target sets), is_check_cords/is_check, can_castle x4, generate_moves_for_piece, promote_pawn, pawn_moves_en_passant, generate_castling_moves, generate_moves.',
        'design_ref': 'DESIGN.md 4/C01',
        'note': 'Trusted: Verus+Z3+rustc; extractor (byte-for-byte copies, insert-only annotations, loop-header rewrites R1/R2); axioms: i8 += &i8, i8::abs, derived Clone of BoardState returns an equal value. key/ordering fields are not part of a move. No bound.',
        'technique': 'Verus contracts on the whole generator chain; top-level ensures = sound + complete + distinct against a rules-level legal_move',
    },
    'C02': {
        'text': 'Unbounded proof: every board returned by generate_moves (both modes) is succ_correct: either succ_ok(parent, s, from, to) -- placement = after_board incl. en-passant victim and promotion piece, side swapped, en-passant target set exactly after a double step, both king squares, all four rights (lost iff king moves / rook leaves corner / something lands on corner), last_move names the move, promotion piece present iff a pawn reaches the last rank (own colour, Q/N/B/R) -- with the mover\'s king not attacked, or castle_succ_ok (king two squares, rook hop, both rights gone, no target, no promotion letter). The precondition says nothing about the parent\'s last_move / pawn_promotion / order_heuristic, so the claim holds along any chain.',
        'design_ref': 'DESIGN.md 4/C02',
        'note': 'Trusted as for C01. The printed text (Display for Point, PieceKind::alg, format!) is not under contract: the thorough tier cross-checks it natively against the oracle; legal_position closure under successors is machine-checked (lemma_step_closure / lemma_castle_closure / lemma_chain_closure, and generate_moves ensures legal_position of every returned board).',
        'technique': 'Verus postcondition succ_ok / castle_succ_ok at every push site of the real successor builders',
    },
    'C13': {
        'text': 'Unbounded proof: with CapturesOnly, generate_moves returns exactly the legal capturing moves (en passant included): sound, complete, duplicate-free against legal_move(.., CapturesOnly), and every successor is succ_correct (promotion on a capture to the last rank, stale en-passant target cleared). The mode is symbolic in every callee, so both modes are proved by the same units.',
        'design_ref': 'DESIGN.md 4/C13',
        'note': 'Trusted as for C01. Chains: each successor satisfies succ_ok, whose en-passant clause makes a stale target impossible; the closure of legal_position under successors is machine-checked (closure lemmas; generate_moves ensures legal_position of every returned board in both modes); quiesce itself (search) is not under contract.',
        'technique': 'the C01/C02 contracts instantiated with the capture-only mode',
    },
    'C05': {
        'text': 'Unbounded proof, for ANY table contents: key_ok(b,h) := b.zobrist_key == hash_of(b,h) (from-scratch XOR over 64 squares, side, four rights, en-passant file) is preserved by the four BoardState mutators (exact frame+effect contracts), established for every successor returned by generate_moves in both modes (direct key writes at the double-step, en-passant-victim and promotion sites proved locally) and by the text applier make_move. Route independence is the corollary (every producer under contract yields hash_of(position)). "Changing a single component changes the key" is an exhaustive evaluation of the 781 real ChaCha8 constants (pairwise distinct, non-zero) -- exhaustive, not deductive.',
        'design_ref': 'DESIGN.md 4/C05, 11',
        'note': 'Trusted as for C01 plus the C04 text helpers. Not decided deductively: from_fen builds hash_of from scratch (string code outside both verifiers) -- BOUNDED native stand-in only (oracle-generated FENs load with the from-scratch key), labelled bounded, not counted.',
        'technique': 'Verus: key_ok as a representation invariant preserved by every mutator, every successor builder and make_move',
    },
    'C10': {
        'text': 'Unbounded proof for the table operations: new/clear give the empty table, add_board_to_draw_table changes exactly one count by one (frame over all other keys), is_threefold_repetition leaves the table unchanged and answers exactly "already seen at least twice", remove_board_from_draw_table lowers exactly the count of a present key by one and touches nothing else (same key set), and lemma_add_then_remove: add followed by remove restores every count (the search\'s walk-and-back-out). Over vstd\'s HashMap model.',
        'design_ref': 'DESIGN.md 4/C10',
        'note': 'The position handler (clear + play_out_position) is string code outside both verifiers: BOUNDED native stand-in only (seeded random games incl. repetitions: the table must equal the exact occurrence counts), labelled bounded, not counted. The whole search clause (score never below zero) is not decided (search is outside both verifiers); positions are identified with 64-bit keys (collisions not excluded); remove_board_from_draw_table needs the exact-text rewrite R5 of its `if let Some(&val)` header (reference pattern -> `Some(__r)` + `let val = *__r;`).',
        'technique': 'Verus contracts on DrawTable over the vstd HashMap model',
    },
    'C14': {
        'text': 'Unbounded proof: get_evaluation(b) == eval_spec(placement, side) (so it depends on nothing else), and three lemmas over eval_spec for ALL placements: mirrored twin evaluates equal, other side to move negates, |eval| <= 96000 < MATE_SCORE-15. Piece values/phase weights are taken from the function bodies, tables from the real consts, so retuning keeps verifying while asymmetry or overflow does not.',
        'design_ref': 'DESIGN.md 4/C14',
        'note': 'Trusted: Verus+Z3+rustc, extractor. The bound is proved for every placement (64 occupied squares), which is more than legal positions need; i32 overflow freedom is proved.',
        'technique': 'Verus contract get_evaluation == eval_spec + symmetry/negation/bound lemmas',
    },
    'C06': {
        'text': 'Unbounded proof: for every well-formed 12x12 mailbox with one king per side (cached squares correct) and both colours, is_check returns exactly attacked_by(placement, enemy, king square), where attacked_by is a rules-level spec (sliders stopped by the first piece, pawn diagonals forward only, knights, adjacent king). Discharged by Verus on the function text copied from /repo on every run, with loop invariants and termination; must-fail canaries guard against vacuity.',
        'design_ref': 'DESIGN.md 4/C06, 3.1-3.6',
        'note': 'Trusted: Verus+Z3+rustc; two arithmetic glue axioms (i8 += &i8, i8::abs); the byte-for-byte extractor. kings_ok (cache points at the kings) is a precondition, re-established by the successor contracts (C02/C04). No bound.',
        'technique': 'Verus function contracts + loop invariants on the real is_check/is_check_cords text',
    },
}
