"""Texts for MANIFEST.json (kept next to the contracts so that they are updated together)."""
SOURCE_COMMITS = []
ENGINES = [
    {'name': 'verus-contracts', 'path': 'check', 'serves_properties': ['C06'],
     'kind_free_text': 'Verus 0.2026.09.13: requires/ensures/invariant/decreases inserted into functions copied byte-for-byte from /repo/src on every run; one verifier process per unit'},
]
NOTES = ('Technique family: contract-based deductive verification of the real code. exit 0 = all obligations discharged; '
         'exit 1 = VIOLATION line (a previously discharged obligation now fails; replay file carries the obligation, verifier output and, when found, a failing input); '
         'exit 2 = UNDECIDED (lost anchor / front-end rejection / persistent rlimit), never an alarm. See DESIGN.md.')

PENDING = 'check not yet built in this commit (planned, see DESIGN.md section 4); listed here until its check is registered'
NOT_APPLICABLE = {
    'C01': PENDING, 'C02': PENDING, 'C04': PENDING, 'C05': PENDING, 'C09': PENDING, 'C10': PENDING, 'C13': PENDING, 'C14': PENDING, 'C15': PENDING,
    'C03': 'two threads, an mpsc channel, a polling loop on the wall clock and stdout: no function-level contract states "exactly one bestmove", Kani has no threads, and get_best_move/alpha_beta_search are outside the Verus subset (closures, sort_unstable_by_key, iterator adaptors); the sequential ingredients are covered by C01/C02/C04',
    'C07': 'needs a contract on the recursive search with ghost clock state; the search body is outside the Verus subset and CBMC cannot unroll it; enumerating expiry points is fault injection, a different family',
    'C08': 'liveness/latency of a two-thread polling loop: no contract over one call expresses "eventually prints within the slice"',
    'C11': 'statement about values returned by alpha_beta_search/quiesce/get_best_move (see C07): outside both verifiers',
    'C12': 'exact minimax equality of the search (see C07): outside both verifiers',
    'C16': 'session histories over a process (read-dispatch loop, threads, stdout): not expressible as a function contract within reach',
    'C17': 'process lifecycle, EOF and unknown-input handling of the read loop: process-level behaviour, not a function contract within reach',
    'C18': 'formatted search output under the clock (send_search_info inside the search): outside both verifiers',
}
CHECKS = {
    'C06': {
        'text': 'Unbounded proof: for every well-formed 12x12 mailbox with one king per side (cached squares correct) and both colours, is_check returns exactly attacked_by(placement, enemy, king square), where attacked_by is a rules-level spec (sliders stopped by the first piece, pawn diagonals forward only, knights, adjacent king). Discharged by Verus on the function text copied from /repo on every run, with loop invariants and termination; must-fail canaries guard against vacuity.',
        'design_ref': 'DESIGN.md 4/C06, 3.1-3.6',
        'note': 'Trusted: Verus+Z3+rustc; two arithmetic glue axioms (i8 += &i8, i8::abs); the byte-for-byte extractor. kings_ok (cache points at the kings) is a precondition, re-established by the successor contracts (C02/C04). No bound.',
        'technique': 'Verus function contracts + loop invariants on the real is_check/is_check_cords text',
    },
}
