"""Layer 8 -- the text move applier uci::make_move (C04, also a producer for C05).

make_move mixes board logic with &str operations.  The board logic is verified against the SAME pos_after /
castle_pos_after used for the generator's successors (C02); the &str operations are abstracted by uninterpreted
results (text_square_at, text_contains, text_char, str::len via call_ensures) tied together by the precondition
text_facts(s): "the text operations decode s to the squares / promotion letter it spells".  text_facts is discharged
for every string of the UCI move grammar by a Kani harness that runs the REAL str/Point operations (kani/uci_harness.rs).
Rewrites of executable text (exact-text, applied once each; anything else is copied verbatim):
  R3  `player_move.chars().nth(4).unwrap()`      -> `__verif_char_at(player_move, 4)`
  R4a `(player_move[0..2]).parse().unwrap()`     -> `__verif_square_at(player_move, 0)`
  R4b `(player_move[2..4]).parse().unwrap()`     -> `__verif_square_at(player_move, 2)`
The two helpers are external_body with the original expression as their body and an uninterpreted result.
`error!(..)` (log crate) is a no-op macro; `impl From<Piece> for Square` is copied.
"""
R3 = ('R3', 'player_move.chars().nth(4).unwrap()', '__verif_char_at(player_move, 4)')
R4a = ('R4a', '(player_move[0..2]).parse().unwrap()', '__verif_square_at(player_move, 0)')
R4b = ('R4b', '(player_move[2..4]).parse().unwrap()', '__verif_square_at(player_move, 2)')

# bodies of the R3/R4 helpers: the SAME text is compiled into the Kani harness (kani/uci_harness.rs), where the harnesses call
# these helpers on the real str/Point code; `check` refuses to run when the two texts differ
CHAR_BODY = '{ s.chars().nth(n).unwrap() }'
SQ_BODY = '{ (s[i..i + 2]).parse().unwrap() }'

SPEC_T = r'''
// ---- abstract results of the text operations make_move uses ----
pub uninterp spec fn text_contains<P>(s: &str, p: P) -> bool;
pub assume_specification<'a, P: core::str::pattern::Pattern>[ str::contains::<P> ](s: &'a str, p: P) -> (r: bool)
    ensures r == text_contains(s, p);
pub uninterp spec fn text_char(s: &str, n: usize) -> char;
#[verifier::external_body]
fn __verif_char_at(s: &str, n: usize) -> (r: char) ensures r == text_char(s, n) %(CHAR_BODY)s
pub uninterp spec fn text_square_at(s: &str, i: usize) -> Point;
#[verifier::external_body]
fn __verif_square_at(s: &str, i: usize) -> (r: Point) ensures r == text_square_at(s, i) %(SQ_BODY)s

// ---- the move a UCI string spells: [a-h][1-8][a-h][1-8]([qnbr])? ----
pub uninterp spec fn tm_from(s: &str) -> Point;
pub uninterp spec fn tm_to(s: &str) -> Point;
pub uninterp spec fn tm_promo(s: &str) -> Option<PieceKind>;
pub open spec fn letter_of(k: PieceKind) -> char { match k { Queen => 'q', Knight => 'n', Bishop => 'b', Rook => 'r', King => 'k', Pawn => 'p' } }
pub open spec fn names_square(s: &str, p: Point) -> bool { tm_from(s) == p || tm_to(s) == p }
// what the Kani harness proves about the real text operations, for every string of the grammar
pub closed spec fn text_facts(s: &str) -> bool {
    &&& text_square_at(s, 0) == tm_from(s) && text_square_at(s, 2) == tm_to(s)
    &&& on_board(tm_from(s).0 as int, tm_from(s).1 as int) && on_board(tm_to(s).0 as int, tm_to(s).1 as int)
    &&& forall|n: usize| #[trigger] call_ensures(str::len, (s,), n) ==> ((n == 5) == (tm_promo(s) is Some))
    &&& (tm_promo(s) matches Some(k) ==> (k == Queen || k == Knight || k == Bishop || k == Rook) && text_char(s, 4) == letter_of(k))
    &&& text_contains::<&str>(s, "a8") == names_square(s, Point(2, 2))
    &&& text_contains::<&str>(s, "h8") == names_square(s, Point(2, 9))
    &&& text_contains::<&str>(s, "a1") == names_square(s, Point(9, 2))
    &&& text_contains::<&str>(s, "h1") == names_square(s, Point(9, 9))
    &&& (s@ == WHITE_KING_SIDE_CASTLE_STRING@) == (tm_from(s) == Point(9, 6) && tm_to(s) == Point(9, 8) && tm_promo(s) is None)
    &&& (s@ == WHITE_QUEEN_SIDE_CASTLE_STRING@) == (tm_from(s) == Point(9, 6) && tm_to(s) == Point(9, 4) && tm_promo(s) is None)
    &&& (s@ == BLACK_KING_SIDE_CASTLE_STRING@) == (tm_from(s) == Point(2, 6) && tm_to(s) == Point(2, 8) && tm_promo(s) is None)
    &&& (s@ == BLACK_QUEEN_SIDE_CASTLE_STRING@) == (tm_from(s) == Point(2, 6) && tm_to(s) == Point(2, 4) && tm_promo(s) is None)
}
pub open spec fn text_mv(s: &str, mover: PieceColor) -> Mv {
    (tm_from(s), tm_to(s), match tm_promo(s) { Some(k) => Some(Piece { kind: k, color: mover }), None => None })
}
// C04: after one `position ... moves` step the engine holds exactly the position the rules give for that move --
// the same pos_after / castle_pos_after the generator's successors satisfy (C02)
pub open spec fn applied(b: &BoardState, s: &BoardState, m: Mv) -> bool {
    if legal_castle(b, m) {
        exists|t: CastlingType| right_color(t) == b.to_move && may_castle(b, t) && m == castle_mv(t) && #[trigger] castle_pos_after(b, s, t)
    } else {
        pos_after(b, s, m.0.0 as int, m.0.1 as int, m.1.0 as int, m.1.1 as int, m.2)
    }
}
'''

FRM = 'let fr = start_pair.0 as int; let fc = start_pair.1 as int; let tr = end_pair.0 as int; let tc = end_pair.1 as int; let h = zobrist_hasher;'
MM = {
    'requires': [
        'legal_position(old(board))', 'key_ok(old(board), zobrist_hasher)',
        'text_facts(player_move)',
        'legal_move(old(board), text_mv(player_move, old(board).to_move), MoveGenerationMode::AllMoves)',
    ],
    'ensures': [
        '@C04| applied(old(board), final(board), text_mv(player_move, old(board).to_move))',
        '@C04,C05| key_ok(final(board), zobrist_hasher)',
        # induction step over the move list: the position held after the step is again a legal position
        '@C04| legal_position(final(board)) && is_successor(old(board), final(board))',
    ],
    'body_start': """let ghost b0 = *board; let ghost m = text_mv(player_move, board.to_move);
    proof {
        reveal(pseudo_target); reveal(kings_ok);
        lemma_castle_shape(&b0, m, MoveGenerationMode::AllMoves);
        assert(own_at(&b0, m.0) || legal_castle(&b0, m));
        if legal_castle(&b0, m) {
            let t = choose|t: CastlingType| right_color(t) == b0.to_move && #[trigger] may_castle(&b0, t) && m == castle_mv(t);
            assert(right(&b0, t));
            assert(at(b0.board, home_row(t), 6) == Square::Full(Piece { kind: King, color: right_color(t) }));
        }
    }""",
    'before_text': [
        ('// check for en passant captures', 0, 'let ghost pre_ep = *board;'),
        ('let promotion_piece = Piece {', 0, 'let ghost pre_pr = *board;'),
        ('//move piece', 0, 'let ghost pre_mv = *board;'),
        ('// deal with castling, here we also make sure', 0, 'let ghost pre_ca = *board;'),
    ],
    'block_end': [
        ('board.pawn_double_move = Some(', 0, """@C04,C05| proof {
                let s = &*board; let h = zobrist_hasher;
                // named through the field, not through the local that holds the target: a renamed local keeps verifying (N7)
                let e = h.ep(match s.pawn_double_move { Some(p) => p.1 as int, None => 0int });
                lemma_key_component(kp(s, h), ks(s, h), kc1(s, h), kc2(s, h), kc3(s, h), kc4(s, h), 0u64, e);
                assert(key_ok(s, h));
            }"""),
        ('board.zobrist_key ^= zobrist_hasher.get_val_for_piece(', 0, """@C04,C05| proof {
                %(FRM)s
                let s = &*board;
                // a pawn moving diagonally onto an empty square is no ordinary pawn target: it is the en-passant capture
                assert(legal_ep(&b0, fr, fc, end_pair, m.2));
                assert(ep_ok(&b0));
                assert(pre_ep.board == b0.board);
                assert(at(b0.board, fr, tc) == Square::Full(Piece { kind: Pawn, color: opp(b0.to_move) }));
                assert(s.board == upd2(pre_ep.board, fr, tc, Square::Empty));
                lemma_placement_update(h, pre_ep.board, fr, tc, Square::Empty, 64);
                let d = h.pc(Piece { kind: Pawn, color: opp(b0.to_move) }, fr, tc);
                let a = placement_hash(h, pre_ep.board, 64);
                assert(d ^ 0u64 == d) by (bit_vector);
                lemma_key_component(a, ks(s, h), kc1(s, h), kc2(s, h), kc3(s, h), kc4(s, h), ep_hash(s, h), d);
                assert(key_ok(s, h));
            }""" % {'FRM': FRM}),
        ('board.board[end_pair.0][end_pair.1] = promotion_piece.into()', 0, """@C04,C05| proof {
            %(FRM)s
            let s = &*board;
            let q = promotion_piece; let pw = Piece { kind: Pawn, color: b0.to_move };
            assert(pre_pr.board[tr][tc] == Square::Full(pw));
            assert(s.board == upd2(pre_pr.board, tr, tc, Square::Full(q)));
            lemma_placement_update(h, pre_pr.board, tr, tc, Square::Full(q), 64);
            let x = h.pc(q, tr, tc); let y = h.pc(pw, tr, tc);
            assert(sq_hash(h, pre_pr.board[tr][tc], tr, tc) ^ sq_hash(h, Square::Full(q), tr, tc) == y ^ x);
            let a = placement_hash(h, pre_pr.board, 64);
            assert(kp(s, h) == a ^ (y ^ x));
            lemma_key_component(a, ks(s, h), kc1(s, h), kc2(s, h), kc3(s, h), kc4(s, h), ep_hash(s, h), y ^ x);
            assert(key_ok(s, h));
        }""" % {'FRM': FRM}),
    ],
    'at_end': """@C04| proof {
        %(FRM)s
        let s = &*board;
        assert(start_pair == m.0 && end_pair == m.1);
        if legal_castle(&b0, m) {
            let t = choose|t: CastlingType| right_color(t) == b0.to_move && #[trigger] may_castle(&b0, t) && m == castle_mv(t);
            assert(castle_pos_after(&b0, s, t));
            lemma_castle_closure(&b0, s, t);
            assert(is_successor(&b0, s));
        } else {
            let ab = after_board(&b0, fr, fc, tr, tc, m.2);
            assert forall|a: int, b: int| 0 <= a < 12 && 0 <= b < 12 implies #[trigger] s.board[a][b] == ab[a][b] by {}
            assert forall|a: int| 0 <= a < 12 implies #[trigger] s.board[a] =~= ab[a] by {
                assert forall|b: int| 0 <= b < 12 implies s.board[a][b] == ab[a][b] by {}
            }
            assert(s.board =~= ab);
            assert(pos_after(&b0, s, fr, fc, tr, tc, m.2));
            lemma_step_closure(&b0, s, fr, fc, end_pair, m.2, MoveGenerationMode::AllMoves);
            assert(pos_after(&b0, s, fr, fc, end_pair.0 as int, end_pair.1 as int, m.2) && succ_mode(MoveGenerationMode::AllMoves));
            assert(is_successor(&b0, s));
        }
    }""" % {'FRM': FRM},
    'expect': {'loops': [], 'contains': ['board.unset_pawn_double_move(zobrist_hasher)', 'if piece.kind == King', 'else if piece.kind == Pawn', 'contains("a8")', 'contains("h8")', 'contains("a1")', 'contains("h1")',
                                         'board.move_piece(start_pair, end_pair, zobrist_hasher)', 'player_move.len() == 5', 'WHITE_KING_SIDE_CASTLE_STRING', 'WHITE_QUEEN_SIDE_CASTLE_STRING', 'BLACK_KING_SIDE_CASTLE_STRING', 'BLACK_QUEEN_SIDE_CASTLE_STRING', 'board.swap_color(zobrist_hasher)']},
}
P = ('C04', 'C05')


def build(g):
    for n in ['WHITE_KING_SIDE_CASTLE_STRING', 'WHITE_QUEEN_SIDE_CASTLE_STRING', 'BLACK_KING_SIDE_CASTLE_STRING', 'BLACK_QUEEN_SIDE_CASTLE_STRING']:
        g.add(g.const('uci', n, static_str=True))
    s = g.S('board')
    g.add('impl vstd::std_specs::convert::FromSpecImpl<Piece> for Square { open spec fn obeys_from_spec() -> bool { true } open spec fn from_spec(p: Piece) -> Square { Square::Full(p) } }')
    g.add('impl From<Piece> for Square {',
          g.fn('board', 'from', {'ret': 'res', 'ensures': ['res == Square::Full(piece)']}, impl=r'From<Piece>\s+for\s+Square', qual='Square::from', props=P),
          '}')
    # the real parser of a square, compiled but not verified here (Kani covers it: C15 harness and the text-facts harness)
    imp = s.find_impl(r'FromStr\s+for\s+Point')
    g.outside.append(s.s[imp[0]:imp[2]])
    g.copied.append({'item': 'impl FromStr for Point (outside verus!)', 'file': 'src/board.rs', 'line': s.line_of(imp[0])})
    import os
    kh = open(os.path.join(os.path.dirname(os.path.dirname(os.path.abspath(__file__))), 'kani', 'uci_harness.rs')).read()
    from vlib.extract import LostAnchor
    if ('fn __verif_char_at(s: &str, n: usize) -> char ' + CHAR_BODY) not in kh or ('fn __verif_square_at(s: &str, i: usize) -> Point ' + SQ_BODY) not in kh:
        raise LostAnchor('R3/R4 helper bodies differ between contracts/ucimove.py and kani/uci_harness.rs')
    g.add(SPEC_T.replace('%(CHAR_BODY)s', CHAR_BODY).replace('%(SQ_BODY)s', SQ_BODY))
    g.add(g.fn('uci', 'make_move', MM, rewrites=[R3, R4a, R4b], props=P, own=()))
