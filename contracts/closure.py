"""Layer 9 -- closure of legal_position under the engine's successors (the "however long the chain" clauses of C02/C13
and the induction step of C04): a position that satisfies pos_after / castle_pos_after of a legal move from a legal
position is again a legal position.  Pure rules-level lemmas (no engine code)."""
SPEC = r'''
// explicit content of the board after an ordinary move / en passant capture
pub proof fn lemma_after_board_cells(b: &BoardState, fr: int, fc: int, tr: int, tc: int, promo: Option<Piece>)
    requires on_board(fr, fc), on_board(tr, tc), !(fr == tr && fc == tc)
    ensures forall|i: int, j: int| in_arr(i, j) ==> #[trigger] at(after_board(b, fr, fc, tr, tc, promo), i, j) ==
        (if is_ep_capture(b, fr, fc, tr, tc) && i == fr && j == tc { Square::Empty }
         else if i == tr && j == tc { Square::Full(match promo { Some(q) => q, None => piece_on(b, fr, fc) }) }
         else if i == fr && j == fc { Square::Empty } else { at(b.board, i, j) })
{
}
// C02/C13 chains, C04 induction step: the successor of a legal non-castling move is a legal position
pub proof fn lemma_step_closure(b: &BoardState, s: &BoardState, fr: int, fc: int, t: Point, promo: Option<Piece>, mode: MoveGenerationMode)
    requires
        legal_position(b), own_at(b, Point(fr as usize, fc as usize)), 0 <= fr, 0 <= fc,
        legal_step(b, fr, fc, t, promo, mode) || legal_ep(b, fr, fc, t, promo),
        pos_after(b, s, fr, fc, t.0 as int, t.1 as int, promo),
    ensures legal_position(s)
{
    reveal(pseudo_target); reveal(kings_ok);
    let tr = t.0 as int; let tc = t.1 as int;
    let p = piece_on(b, fr, fc);
    assert(at(b.board, fr, fc) == Square::Full(p) && p.color == b.to_move);
    if legal_step(b, fr, fc, t, promo, mode) {
        lemma_target_not_king(b, fr, fc, t, mode);
    } else {
        assert(ep_ok(b));
    }
    assert(on_board(tr, tc) && !(fr == tr && fc == tc));
    lemma_after_board_cells(b, fr, fc, tr, tc, promo);
    let ep = is_ep_capture(b, fr, fc, tr, tc);
    assert(ep ==> on_board(fr, tc) && at(b.board, fr, tc) == Square::Full(Piece { kind: Pawn, color: opp(b.to_move) }));
    assert(wf(s.board));
    assert(kings_ok(s));
    assert(rights_ok(s)) by {
        assert(rights_ok(b));
        assert forall|ct: CastlingType| #[trigger] right(s, ct) implies
            at(s.board, corner(ct).0, corner(ct).1) == Square::Full(Piece { kind: Rook, color: right_color(ct) })
            && at(s.board, if right_color(ct) == White { 9int } else { 2int }, 6) == Square::Full(Piece { kind: King, color: right_color(ct) }) by {
            assert(right(b, ct));
        }
    }
    assert(ep_ok(s));
    assert(no_pawn_on_back_ranks(s.board));
    // the side that has just moved is not in check: this is safe_after
    assert(enemy_king_sq(s) == king_after(b, fr, fc, tr, tc));
}

// a ray that leaves row r immediately sees the same squares on two boards that differ only on row r
pub proof fn lemma_ray_offrow(b1: [[Square; 12]; 12], b2: [[Square; 12]; 12], r: int, c: int, dr: int, dc: int, p: Piece)
    requires
        dr == 1 || dr == -1, -1 <= dc <= 1,
        forall|i: int, j: int| i != r ==> #[trigger] at(b1, i, j) == at(b2, i, j),
    ensures ray_hits(b1, r, c, dr, dc, p) == ray_hits(b2, r, c, dr, dc, p)
{
    assert forall|n: int| 1 <= n implies (#[trigger] clear(b1, r, c, dr, dc, n) == clear(b2, r, c, dr, dc, n)) by {
        if clear(b1, r, c, dr, dc, n) {
            assert forall|k: int| 1 <= k < n implies #[trigger] at(b2, r + k * dr, c + k * dc) == Square::Empty by {
                lemma_mul_unit(k, dr); assert(at(b1, r + k * dr, c + k * dc) == Square::Empty);
            }
        }
        if clear(b2, r, c, dr, dc, n) {
            assert forall|k: int| 1 <= k < n implies #[trigger] at(b1, r + k * dr, c + k * dc) == Square::Empty by {
                lemma_mul_unit(k, dr); assert(at(b2, r + k * dr, c + k * dc) == Square::Empty);
            }
        }
    }
    if ray_hits(b1, r, c, dr, dc, p) {
        let n = choose|n: int| 1 <= n < 8 && #[trigger] clear(b1, r, c, dr, dc, n) && on_board(r + n * dr, c + n * dc) && at(b1, r + n * dr, c + n * dc) == Square::Full(p);
        lemma_mul_unit(n, dr);
        assert(clear(b2, r, c, dr, dc, n));
        assert(at(b2, r + n * dr, c + n * dc) == Square::Full(p));
    }
    if ray_hits(b2, r, c, dr, dc, p) {
        let n = choose|n: int| 1 <= n < 8 && #[trigger] clear(b2, r, c, dr, dc, n) && on_board(r + n * dr, c + n * dc) && at(b2, r + n * dr, c + n * dc) == Square::Full(p);
        lemma_mul_unit(n, dr);
        assert(clear(b1, r, c, dr, dc, n));
        assert(at(b1, r + n * dr, c + n * dc) == Square::Full(p));
    }
}
// along the home row, the castled king is shielded by its own rook on one side and by the board edge on the other
pub proof fn lemma_castled_row_safe(sb: [[Square; 12]; 12], r: int, t: CastlingType, p: Piece, dc: int)
    requires
        wf(sb), r == home_row(t), p.color == opp(right_color(t)), dc == 1 || dc == -1,
        at(sb, r, rook_to(t)) == Square::Full(Piece { kind: Rook, color: right_color(t) }),
        at(sb, r, rook_from(t)) == Square::Empty,
        !king_side(t) ==> at(sb, r, 3) == Square::Empty,
    ensures !ray_hits(sb, r, king_to(t), 0, dc, p)
{
    let kt = king_to(t);
    assert forall|n: int| 1 <= n < 8 && #[trigger] clear(sb, r, kt, 0, dc, n) && on_board(r + n * 0, kt + n * dc) implies at(sb, r + n * 0, kt + n * dc) != Square::Full(p) by {
        lemma_mul_unit(n, dc);
        assert(n * 0 == 0) by (nonlinear_arith);
        // towards the rook: the rook itself stands next to the king; away from it: only empty squares up to the edge
        if kt + dc == rook_to(t) {
            if n >= 2 { assert(at(sb, r + 1 * 0, kt + 1 * dc) == Square::Empty); }
        } else {
            if king_side(t) {
                // g-file king: h is empty, then the edge
                assert(n == 1);
            } else {
                // c-file king: b and a are empty, then the edge
                assert(n <= 2);
            }
        }
    }
}
// C02 chains / C04 induction step: the position after a legal castling move is a legal position
pub proof fn lemma_castle_closure(b: &BoardState, s: &BoardState, t: CastlingType)
    requires legal_position(b), right_color(t) == b.to_move, may_castle(b, t), castle_pos_after(b, s, t)
    ensures legal_position(s)
{
    reveal(kings_ok);
    let r = home_row(t); let c = right_color(t); let by = opp(c); let kt = king_to(t);
    assert(right(b, t));
    assert(rights_ok(b));
    assert(at(b.board, r, 6) == Square::Full(Piece { kind: King, color: c }));
    assert(at(b.board, r, rook_from(t)) == Square::Full(Piece { kind: Rook, color: c }));
    assert forall|i: int, j: int| in_arr(i, j) implies #[trigger] at(s.board, i, j) ==
        (if i == r && j == rook_to(t) { Square::Full(Piece { kind: Rook, color: c }) } else if i == r && j == rook_from(t) { Square::Empty }
         else if i == r && j == kt { Square::Full(Piece { kind: King, color: c }) } else if i == r && j == 6 { Square::Empty } else { at(b.board, i, j) }) by {}
    assert(wf(s.board));
    assert(kings_ok(s));
    assert(rights_ok(s)) by {
        assert forall|ct: CastlingType| #[trigger] right(s, ct) implies
            at(s.board, corner(ct).0, corner(ct).1) == Square::Full(Piece { kind: Rook, color: right_color(ct) })
            && at(s.board, if right_color(ct) == White { 9int } else { 2int }, 6) == Square::Full(Piece { kind: King, color: right_color(ct) }) by {
            assert(right(b, ct));
        }
    }
    assert(ep_ok(s));
    assert(no_pawn_on_back_ranks(s.board));
    assert(enemy_king_sq(s) == Point(r as usize, kt as usize));
    // the castled king is not attacked: every attack on its square in s is an attack on that square in b
    assert(!attacked_by(s.board, by, r, kt)) by {
        reveal(attacked_by);
        assert(!attacked_by(b.board, by, r, kt));
        assert(!knight_attack_upto(s.board, by, r, kt, 8)) by {
            assert forall|d: int| 0 <= d < 8 implies !(#[trigger] knight_hits(s.board, by, r, kt, d)) by {
                if knight_hits(s.board, by, r, kt, d) { assert(knight_hits(b.board, by, r, kt, d)); assert(knight_attack_upto(b.board, by, r, kt, 8)); }
            }
        }
        assert(!pawn_attack(s.board, by, r, kt));
        assert(!king_attack(s.board, by, r, kt)) by {
            if king_attack(s.board, by, r, kt) {
                let (kr, kc) = choose|kr: int, kc: int| on_board(kr, kc) && #[trigger] at(s.board, kr, kc) == Square::Full(Piece { kind: King, color: by }) && abs(kr - r) <= 1 && abs(kc - kt) <= 1 && !(kr == r && kc == kt);
                assert(at(b.board, kr, kc) == Square::Full(Piece { kind: King, color: by }));
                assert(king_attack(b.board, by, r, kt));
            }
        }
        assert forall|i: int, j: int| i != r implies #[trigger] at(s.board, i, j) == at(b.board, i, j) by {}
        assert(!line_attack_upto(s.board, by, r, kt, rook_dirs(), Rook, 4)) by {
            assert forall|d: int| 0 <= d < 4 implies !(#[trigger] line_hits(s.board, by, r, kt, rook_dirs(), Rook, d)) by {
                let pr = Piece { kind: Rook, color: by }; let pq = Piece { kind: Queen, color: by };
                if d < 2 {
                    lemma_ray_offrow(s.board, b.board, r, kt, rook_dirs()[d].0 as int, rook_dirs()[d].1 as int, pr);
                    lemma_ray_offrow(s.board, b.board, r, kt, rook_dirs()[d].0 as int, rook_dirs()[d].1 as int, pq);
                    if line_hits(s.board, by, r, kt, rook_dirs(), Rook, d) { assert(line_hits(b.board, by, r, kt, rook_dirs(), Rook, d)); assert(line_attack_upto(b.board, by, r, kt, rook_dirs(), Rook, 4)); }
                } else {
                    lemma_castled_row_safe(s.board, r, t, pr, rook_dirs()[d].1 as int);
                    lemma_castled_row_safe(s.board, r, t, pq, rook_dirs()[d].1 as int);
                }
            }
        }
        assert(!line_attack_upto(s.board, by, r, kt, bishop_dirs(), Bishop, 4)) by {
            assert forall|d: int| 0 <= d < 4 implies !(#[trigger] line_hits(s.board, by, r, kt, bishop_dirs(), Bishop, d)) by {
                let pb = Piece { kind: Bishop, color: by }; let pq = Piece { kind: Queen, color: by };
                lemma_ray_offrow(s.board, b.board, r, kt, bishop_dirs()[d].0 as int, bishop_dirs()[d].1 as int, pb);
                lemma_ray_offrow(s.board, b.board, r, kt, bishop_dirs()[d].0 as int, bishop_dirs()[d].1 as int, pq);
                if line_hits(s.board, by, r, kt, bishop_dirs(), Bishop, d) { assert(line_hits(b.board, by, r, kt, bishop_dirs(), Bishop, d)); assert(line_attack_upto(b.board, by, r, kt, bishop_dirs(), Bishop, 4)); }
            }
        }
    }
}

// ---- chains of any length (C02 / C13 "however long the chain", C04 "every sequence of legal moves") ----
// s is the position after some legal move of p (ordinary, en passant or castling), whichever producer built it
pub open spec fn is_successor(p: &BoardState, s: &BoardState) -> bool {
    ||| exists|fr: int, fc: int, t: Point, promo: Option<Piece>, mode: MoveGenerationMode|
            #![trigger pos_after(p, s, fr, fc, t.0 as int, t.1 as int, promo), succ_mode(mode)]
            0 <= fr && 0 <= fc && own_at(p, Point(fr as usize, fc as usize)) && (legal_step(p, fr, fc, t, promo, mode) || legal_ep(p, fr, fc, t, promo))
            && pos_after(p, s, fr, fc, t.0 as int, t.1 as int, promo) && succ_mode(mode)
    ||| exists|t: CastlingType| right_color(t) == p.to_move && may_castle(p, t) && #[trigger] castle_pos_after(p, s, t)
}
pub open spec fn succ_mode(mode: MoveGenerationMode) -> bool { true }
pub open spec fn is_chain(v: Seq<BoardState>) -> bool {
    forall|i: int| 0 <= i < v.len() - 1 ==> is_successor(#[trigger] &v[i], &v[i + 1])
}
// every position along a chain of successors that starts in a legal position is a legal position (induction on the length)
pub proof fn lemma_chain_closure(v: Seq<BoardState>, n: int)
    requires v.len() >= 1, legal_position(&v[0]), is_chain(v), 0 <= n < v.len()
    ensures legal_position(&v[n])
    decreases n
{
    if n > 0 {
        lemma_chain_closure(v, n - 1);
        let p = &v[n - 1]; let s = &v[n];
        assert(is_successor(&v[n - 1], &v[n - 1 + 1]));
        if exists|t: CastlingType| right_color(t) == p.to_move && may_castle(p, t) && #[trigger] castle_pos_after(p, s, t) {
            let t = choose|t: CastlingType| right_color(t) == p.to_move && may_castle(p, t) && #[trigger] castle_pos_after(p, s, t);
            lemma_castle_closure(p, s, t);
        } else {
            let (fr, fc, t, promo, mode) = choose|fr: int, fc: int, t: Point, promo: Option<Piece>, mode: MoveGenerationMode|
                #![trigger pos_after(p, s, fr, fc, t.0 as int, t.1 as int, promo), succ_mode(mode)]
                0 <= fr && 0 <= fc && own_at(p, Point(fr as usize, fc as usize)) && (legal_step(p, fr, fc, t, promo, mode) || legal_ep(p, fr, fc, t, promo))
                && pos_after(p, s, fr, fc, t.0 as int, t.1 as int, promo) && succ_mode(mode);
            lemma_step_closure(p, s, fr, fc, t, promo, mode);
        }
    }
}
'''
def build(g):
    g.add(SPEC)
