"""C15 (one deductive unit inside from_fen's reach): BoardState::piece_from_fen_string_char maps exactly the twelve FEN
piece letters (upper case = White) to their pieces and everything else to None.  The rest of from_fen stays bounded."""
SPEC = r'''
// FEN piece letters (Forsyth-Edwards Notation): p n b r q k, upper case for White
pub open spec fn fen_kind(c: char) -> Option<PieceKind> {
    if c == 'p' || c == 'P' { Some(Pawn) } else if c == 'n' || c == 'N' { Some(Knight) } else if c == 'b' || c == 'B' { Some(Bishop) }
    else if c == 'r' || c == 'R' { Some(Rook) } else if c == 'q' || c == 'Q' { Some(Queen) } else if c == 'k' || c == 'K' { Some(King) } else { None }
}
pub open spec fn fen_piece(c: char) -> Option<Piece> {
    match fen_kind(c) {
        Some(k) => Some(Piece { kind: k, color: if c == 'P' || c == 'N' || c == 'B' || c == 'R' || c == 'Q' || c == 'K' { White } else { Black } }),
        None => None,
    }
}
'''
P = ('C15',)

def build(g):
    g.add(SPEC)
    g.add('impl BoardState {',
          g.fn('board', 'piece_from_fen_string_char', {'ret': 'res', 'ensures': ['res == fen_piece(piece)'], 'expect': {'loops': []}}, impl='BoardState', qual='BoardState::piece_from_fen_string_char', props=P),
          '}')
