"""Layer 5 -- successor construction (B-contract): promote_pawn, pawn_moves_en_passant, generate_moves_for_piece.

C02: every pushed successor is succ_ok (the position after the move its descriptor names); C05: key_ok preserved;
C01/C13: the pushed successors are exactly the legal (capturing) moves of this piece: sound, complete, duplicate-free.
"""
R1 = ('R1', "    for mov in moves {\n", "    let mut __i: usize = 0;\n    while __i < moves.len() {\n        let mov = moves[__i];\n        __i += 1;\n")
R2 = ('R2', "    for kind in [Queen, Knight, Bishop, Rook] {\n", "    let __arr = [Queen, Knight, Bishop, Rook];\n    let mut __i: usize = 0;\n    while __i < __arr.len() {\n        let kind = __arr[__i];\n        __i += 1;\n")

LEMMAS = r"""
pub proof fn lemma_step_skip(b: &BoardState, from: Point, targets: Seq<Point>, j0: int, v: Seq<BoardState>, lo: int)
    requires
        step_inv(b, from, targets, j0, v, lo), 0 <= j0 < targets.len(),
        forall|promo: Option<Piece>| promo_ok(b, from.0 as int, from.1 as int, targets[j0].0 as int, promo)
            ==> !(#[trigger] safe_after(b, from.0 as int, from.1 as int, targets[j0].0 as int, targets[j0].1 as int, promo)),
    ensures step_inv(b, from, targets, j0 + 1, v, lo)
{
    assert forall|i: int| lo <= i < v.len() implies from_earlier(#[trigger] &v[i], from, targets, j0 + 1) by {
        let j = choose|j: int| 0 <= j < j0 && v[i].last_move == Some((from, #[trigger] targets[j]));
        assert(v[i].last_move == Some((from, targets[j])));
    }
}

pub proof fn lemma_step_push1(b: &BoardState, from: Point, targets: Seq<Point>, j0: int, pre: Seq<BoardState>, now: Seq<BoardState>, lo: int, s: BoardState)
    requires
        step_inv(b, from, targets, j0, pre, lo), 0 <= j0 < targets.len(), 0 <= lo <= pre.len(), targets_distinct(targets),
        now == pre.push(s), s.last_move == Some((from, targets[j0])), s.pawn_promotion is None,
        !promotes(b, from.0 as int, from.1 as int, targets[j0].0 as int),
    ensures step_inv(b, from, targets, j0 + 1, now, lo)
{
    assert forall|i: int| lo <= i < now.len() implies from_earlier(#[trigger] &now[i], from, targets, j0 + 1) by {
        if i < pre.len() {
            assert(now[i] == pre[i]);
            let j = choose|j: int| 0 <= j < j0 && pre[i].last_move == Some((from, #[trigger] targets[j]));
            assert(now[i].last_move == Some((from, targets[j])));
        } else { assert(now[i] == s); assert(now[i].last_move == Some((from, targets[j0]))); }
    }
    assert(succ_distinct(now, lo)) by {
        assert forall|i: int, j: int| lo <= i < j < now.len() implies !(now[i].last_move == now[j].last_move && now[i].pawn_promotion == now[j].pawn_promotion) by {
            if j < pre.len() { assert(now[i] == pre[i] && now[j] == pre[j]); }
            else {
                assert(now[i] == pre[i]);
                let jj = choose|jj: int| 0 <= jj < j0 && pre[i].last_move == Some((from, #[trigger] targets[jj]));
                assert(targets[jj] != targets[j0]);
            }
        }
    }
    assert forall|j: int, promo: Option<Piece>| 0 <= j < j0 + 1 && promo_ok(b, from.0 as int, from.1 as int, targets[j].0 as int, promo)
            && safe_after(b, from.0 as int, from.1 as int, targets[j].0 as int, targets[j].1 as int, promo)
            implies #[trigger] has_succ(now, lo, from, targets[j], promo) by {
        if j < j0 {
            assert(has_succ(pre, lo, from, targets[j], promo));
            let i = choose|i: int| lo <= i < pre.len() && #[trigger] is_succ(&pre[i], from, targets[j], promo);
            assert(now[i] == pre[i]); assert(is_succ(&now[i], from, targets[j], promo));
        } else {
            assert(promo is None);
            assert(is_succ(&now[pre.len() as int], from, targets[j0], promo));
        }
    }
}

pub proof fn lemma_step_push4(b: &BoardState, from: Point, targets: Seq<Point>, j0: int, pre: Seq<BoardState>, now: Seq<BoardState>, lo: int, color: PieceColor)
    requires
        step_inv(b, from, targets, j0, pre, lo), 0 <= j0 < targets.len(), 0 <= lo <= pre.len(), targets_distinct(targets),
        now.len() == pre.len() + 4, forall|i: int| 0 <= i < pre.len() ==> now[i] == pre[i],
        forall|k: int| 0 <= k < 4 ==> (#[trigger] now[pre.len() + k]).pawn_promotion == Some(Piece { color, kind: seq![Queen, Knight, Bishop, Rook][k] }),
        forall|i: int| pre.len() <= i < now.len() ==> (#[trigger] now[i]).last_move == Some((from, targets[j0])),
        promotes(b, from.0 as int, from.1 as int, targets[j0].0 as int), piece_on(b, from.0 as int, from.1 as int).color == color,
    ensures step_inv(b, from, targets, j0 + 1, now, lo)
{
    let n0 = pre.len() as int;
    assert forall|i: int| lo <= i < now.len() implies from_earlier(#[trigger] &now[i], from, targets, j0 + 1) by {
        if i < n0 {
            assert(now[i] == pre[i]);
            let j = choose|j: int| 0 <= j < j0 && pre[i].last_move == Some((from, #[trigger] targets[j]));
            assert(now[i].last_move == Some((from, targets[j])));
        } else { assert(now[i].last_move == Some((from, targets[j0]))); }
    }
    assert(succ_distinct(now, lo)) by {
        assert forall|i: int, j: int| lo <= i < j < now.len() implies !(now[i].last_move == now[j].last_move && now[i].pawn_promotion == now[j].pawn_promotion) by {
            if j < n0 { assert(now[i] == pre[i] && now[j] == pre[j]); }
            else if i < n0 {
                assert(now[i] == pre[i]);
                let jj = choose|jj: int| 0 <= jj < j0 && pre[i].last_move == Some((from, #[trigger] targets[jj]));
                assert(targets[jj] != targets[j0]);
                assert(now[j].last_move == Some((from, targets[j0])));
            } else {
                let a = i - n0; let c = j - n0;
                assert(now[n0 + a].pawn_promotion == Some(Piece { color, kind: seq![Queen, Knight, Bishop, Rook][a] }));
                assert(now[n0 + c].pawn_promotion == Some(Piece { color, kind: seq![Queen, Knight, Bishop, Rook][c] }));
            }
        }
    }
    assert forall|j: int, promo: Option<Piece>| 0 <= j < j0 + 1 && promo_ok(b, from.0 as int, from.1 as int, targets[j].0 as int, promo)
            && safe_after(b, from.0 as int, from.1 as int, targets[j].0 as int, targets[j].1 as int, promo)
            implies #[trigger] has_succ(now, lo, from, targets[j], promo) by {
        if j < j0 {
            assert(has_succ(pre, lo, from, targets[j], promo));
            let i = choose|i: int| lo <= i < pre.len() && #[trigger] is_succ(&pre[i], from, targets[j], promo);
            assert(now[i] == pre[i]); assert(is_succ(&now[i], from, targets[j], promo));
        } else {
            let q = promo.unwrap();
            let k = if q.kind == Queen { 0int } else if q.kind == Knight { 1 } else if q.kind == Bishop { 2 } else { 3 };
            assert(now[n0 + k].pawn_promotion == Some(Piece { color, kind: seq![Queen, Knight, Bishop, Rook][k] }));
            assert(is_succ(&now[n0 + k], from, targets[j0], promo));
        }
    }
}

pub proof fn lemma_attacked_same_view(b1: [[Square; 12]; 12], b2: [[Square; 12]; 12], by: PieceColor, r: int, c: int)
    requires
        forall|i: int, j: int| #![trigger at(b1, i, j)] #![trigger at(b2, i, j)] seen(at(b1, i, j), by) == seen(at(b2, i, j), by),
    ensures attacked_by(b1, by, r, c) == attacked_by(b2, by, r, c)
{
    reveal(attacked_by);
    assert forall|dr: int, dc: int, n: int| #[trigger] clear(b1, r, c, dr, dc, n) == clear(b2, r, c, dr, dc, n) by {}
    assert forall|dr: int, dc: int, p: Piece| p.color == by implies #[trigger] ray_hits(b1, r, c, dr, dc, p) == ray_hits(b2, r, c, dr, dc, p) by {
        if ray_hits(b1, r, c, dr, dc, p) {
            let n = choose|n: int| 1 <= n < 8 && #[trigger] clear(b1, r, c, dr, dc, n) && on_board(r + n * dr, c + n * dc) && at(b1, r + n * dr, c + n * dc) == Square::Full(p);
            assert(clear(b2, r, c, dr, dc, n));
            assert(seen(at(b1, r + n * dr, c + n * dc), by) == seen(at(b2, r + n * dr, c + n * dc), by));
        }
        if ray_hits(b2, r, c, dr, dc, p) {
            let n = choose|n: int| 1 <= n < 8 && #[trigger] clear(b2, r, c, dr, dc, n) && on_board(r + n * dr, c + n * dc) && at(b2, r + n * dr, c + n * dc) == Square::Full(p);
            assert(clear(b1, r, c, dr, dc, n));
            assert(seen(at(b1, r + n * dr, c + n * dc), by) == seen(at(b2, r + n * dr, c + n * dc), by));
        }
    }
    assert forall|dirs: Seq<(i8, i8)>, kind: PieceKind, d: int| #[trigger] line_hits(b1, by, r, c, dirs, kind, d) == line_hits(b2, by, r, c, dirs, kind, d) by {}
    assert forall|d: int| #[trigger] knight_hits(b1, by, r, c, d) == knight_hits(b2, by, r, c, d) by {
        assert(seen(at(b1, r + knight_dirs()[d].0, c + knight_dirs()[d].1), by) == seen(at(b2, r + knight_dirs()[d].0, c + knight_dirs()[d].1), by));
    }
    assert(line_attack_upto(b1, by, r, c, rook_dirs(), Rook, 4) == line_attack_upto(b2, by, r, c, rook_dirs(), Rook, 4)) by {
        if line_attack_upto(b1, by, r, c, rook_dirs(), Rook, 4) {
            let d = choose|d: int| 0 <= d < 4 && #[trigger] line_hits(b1, by, r, c, rook_dirs(), Rook, d);
            assert(line_hits(b2, by, r, c, rook_dirs(), Rook, d));
        }
        if line_attack_upto(b2, by, r, c, rook_dirs(), Rook, 4) {
            let d = choose|d: int| 0 <= d < 4 && #[trigger] line_hits(b2, by, r, c, rook_dirs(), Rook, d);
            assert(line_hits(b1, by, r, c, rook_dirs(), Rook, d));
        }
    }
    assert(line_attack_upto(b1, by, r, c, bishop_dirs(), Bishop, 4) == line_attack_upto(b2, by, r, c, bishop_dirs(), Bishop, 4)) by {
        if line_attack_upto(b1, by, r, c, bishop_dirs(), Bishop, 4) {
            let d = choose|d: int| 0 <= d < 4 && #[trigger] line_hits(b1, by, r, c, bishop_dirs(), Bishop, d);
            assert(line_hits(b2, by, r, c, bishop_dirs(), Bishop, d));
        }
        if line_attack_upto(b2, by, r, c, bishop_dirs(), Bishop, 4) {
            let d = choose|d: int| 0 <= d < 4 && #[trigger] line_hits(b2, by, r, c, bishop_dirs(), Bishop, d);
            assert(line_hits(b1, by, r, c, bishop_dirs(), Bishop, d));
        }
    }
    assert(knight_attack_upto(b1, by, r, c, 8) == knight_attack_upto(b2, by, r, c, 8)) by {
        if knight_attack_upto(b1, by, r, c, 8) { let d = choose|d: int| 0 <= d < 8 && #[trigger] knight_hits(b1, by, r, c, d); assert(knight_hits(b2, by, r, c, d)); }
        if knight_attack_upto(b2, by, r, c, 8) { let d = choose|d: int| 0 <= d < 8 && #[trigger] knight_hits(b2, by, r, c, d); assert(knight_hits(b1, by, r, c, d)); }
    }
    assert(pawn_attack(b1, by, r, c) == pawn_attack(b2, by, r, c)) by {
        let pr = if by == White { r + 1 } else { r - 1 };
        assert(seen(at(b1, pr, c - 1), by) == seen(at(b2, pr, c - 1), by));
        assert(seen(at(b1, pr, c + 1), by) == seen(at(b2, pr, c + 1), by));
    }
    assert(king_attack(b1, by, r, c) == king_attack(b2, by, r, c)) by {
        if king_attack(b1, by, r, c) {
            let (kr, kc) = choose|kr: int, kc: int| on_board(kr, kc) && #[trigger] at(b1, kr, kc) == Square::Full(Piece { kind: King, color: by }) && abs(kr - r) <= 1 && abs(kc - c) <= 1 && !(kr == r && kc == c);
            assert(seen(at(b1, kr, kc), by) == seen(at(b2, kr, kc), by));
            assert(at(b2, kr, kc) == Square::Full(Piece { kind: King, color: by }));
        }
        if king_attack(b2, by, r, c) {
            let (kr, kc) = choose|kr: int, kc: int| on_board(kr, kc) && #[trigger] at(b2, kr, kc) == Square::Full(Piece { kind: King, color: by }) && abs(kr - r) <= 1 && abs(kc - c) <= 1 && !(kr == r && kc == c);
            assert(seen(at(b1, kr, kc), by) == seen(at(b2, kr, kc), by));
            assert(at(b1, kr, kc) == Square::Full(Piece { kind: King, color: by }));
        }
    }
}
"""
PROMO_ITEM = """{
            let s = #[trigger] %s@[i];
            &&& s.pawn_promotion is Some && s.pawn_promotion.unwrap().color == color
            &&& (s.pawn_promotion.unwrap().kind == Queen || s.pawn_promotion.unwrap().kind == Knight || s.pawn_promotion.unwrap().kind == Bishop || s.pawn_promotion.unwrap().kind == Rook)
            &&& s.board == upd2(board.board, target.0 as int, target.1 as int, Square::Full(s.pawn_promotion.unwrap()))
            &&& s.last_move == Some((start, target))
            &&& s.pawn_double_move is None
            &&& s.to_move == board.to_move && s.white_king_location == board.white_king_location && s.black_king_location == board.black_king_location
            &&& s.white_king_side_castle == board.white_king_side_castle && s.white_queen_side_castle == board.white_queen_side_castle
            &&& s.black_king_side_castle == board.black_king_side_castle && s.black_queen_side_castle == board.black_queen_side_castle
        }"""
PROMOTE = {
    'requires': [
        'wf(board.board)', 'on_board(start.0 as int, start.1 as int)', 'on_board(target.0 as int, target.1 as int)', 'ep_in_range(board)',
        '@C05| key_ok(board, zobrist_hasher)', '@C05| at(board.board, target.0 as int, target.1 as int) == Square::Full(Piece { kind: Pawn, color })',
    ],
    'ensures': [
        # exactly the four promotion successors, in a fixed order, nothing else touched
        'forall|k: int| 0 <= k < 4 ==> (#[trigger] final(moves)@[old(moves)@.len() + k]).pawn_promotion == Some(Piece { color, kind: seq![Queen, Knight, Bishop, Rook][k] })',
        'final(moves)@.len() == old(moves)@.len() + 4',
        'forall|i: int| 0 <= i < old(moves)@.len() ==> final(moves)@[i] == old(moves)@[i]',
        'forall|i: int| old(moves)@.len() <= i < final(moves)@.len() ==> ' + PROMO_ITEM % 'final(moves)',
        '@C05| forall|i: int| old(moves)@.len() <= i < final(moves)@.len() ==> key_ok(#[trigger] &final(moves)@[i], zobrist_hasher)',
    ],
    'body_start': 'broadcast use axiom_boardstate_clone;',
    'loops': {0: {
        'invariant': [
            '__arr@ == seq![Queen, Knight, Bishop, Rook]', '__i <= 4', 'moves@.len() == old(moves)@.len() + __i',
            'forall|k: int| 0 <= k < __i ==> (#[trigger] moves@[old(moves)@.len() + k]).pawn_promotion == Some(Piece { color, kind: seq![Queen, Knight, Bishop, Rook][k] })',
            'wf(board.board)', 'on_board(start.0 as int, start.1 as int)', 'on_board(target.0 as int, target.1 as int)', 'ep_in_range(board)',
            'forall|i: int| 0 <= i < old(moves)@.len() ==> moves@[i] == old(moves)@[i]',
            'forall|i: int| old(moves)@.len() <= i < moves@.len() ==> ' + PROMO_ITEM % 'moves',
            '@C05| key_ok(board, zobrist_hasher)', '@C05| at(board.board, target.0 as int, target.1 as int) == Square::Full(Piece { kind: Pawn, color })',
            '@C05| forall|i: int| old(moves)@.len() <= i < moves@.len() ==> key_ok(#[trigger] &moves@[i], zobrist_hasher)',
        ],
        'decreases': '4 - __i',
        'body_start': 'broadcast use axiom_boardstate_clone;',
        'body_end': """@C05| proof {
            let s = &moves@[moves@.len() - 1]; let h = zobrist_hasher; let tr = target.0 as int; let tc = target.1 as int;
            let q = Piece { color, kind };
            let pw = Piece { kind: Pawn, color };
            // clone, then unset en passant (key_ok kept), then key ^= x ^ y while the target square changes from the pawn to q
            lemma_placement_update(h, board.board, tr, tc, Square::Full(q), 64);
            let x = h.pc(q, tr, tc); let y = h.pc(pw, tr, tc);
            assert(sq_hash(h, board.board[tr][tc], tr, tc) ^ sq_hash(h, Square::Full(q), tr, tc) == y ^ x);
            assert(y ^ x == x ^ y) by (bit_vector);
            let a = placement_hash(h, board.board, 64);
            assert(kp(s, h) == a ^ (y ^ x));
            assert(a ^ (y ^ x) == a ^ (x ^ y)) by (bit_vector);
            lemma_key_component(a, ks(s, h), kc1(s, h), kc2(s, h), kc3(s, h), kc4(s, h), 0u64, x ^ y);
        }""",
    }},
    'expect': {'loops': ['while']},
}

EP = {
    'ret': 'res',
    'requires': ['on_board(row as int, col as int)'],
    # Some(t) exactly when the recorded target is diagonally in front of this pawn and the pawn stands on its fifth rank
    'ensures': ["""match res {
            Some(t) => ep_geom(board.pawn_double_move, piece.color, row as int, col as int, t) && row == (if piece.color == White { 5int } else { 6int }),
            None => forall|t: Point| !(#[trigger] ep_geom(board.pawn_double_move, piece.color, row as int, col as int, t) && row == (if piece.color == White { 5int } else { 6int })),
        }"""],
    'expect': {'loops': []},
}

FR = 'let fr = square_cords.0 as int; let fc = square_cords.1 as int; let tr = mov.0 as int; let tc = mov.1 as int;'
LO = 'old(new_moves)@.len() as int'
SND = '@C01,C02,C13| '
CMP = '@C01,C13| '
KEY = '@C05| '

PROMO_SOUND = SND + """proof {
            %(FR)s
            let lo = pre_len as int;
            assert forall|i: int| lo <= i < new_moves@.len() implies gen_sound(board, #[trigger] &new_moves@[i], square_cords) by {
                let s = &new_moves@[i];
                let q = s.pawn_promotion.unwrap();
                assert(s.board == upd2(new_board.board, tr, tc, Square::Full(q)));
                assert(target_ok(board, fr, fc, mov));
                assert(!is_ep_capture(board, fr, fc, tr, tc));
                assert(new_board.board == upd2(upd2(board.board, fr, fc, Square::Empty), tr, tc, Square::Full(piece)));
                let ab = after_board(board, fr, fc, tr, tc, s.pawn_promotion);
                assert forall|a: int, b: int| 0 <= a < 12 && 0 <= b < 12 implies #[trigger] s.board[a][b] == ab[a][b] by {}
                assert forall|a: int| 0 <= a < 12 implies #[trigger] s.board[a] =~= ab[a] by {
                    assert forall|b: int| 0 <= b < 12 implies s.board[a][b] == ab[a][b] by {}
                }
                assert(s.board =~= ab);
                assert(succ_ok(board, s, fr, fc, tr, tc));
                // the promoted piece is the mover's own: the attack computation cannot tell it from the pawn
                assert forall|a: int, b: int| #![trigger at(s.board, a, b)] #![trigger at(new_board.board, a, b)] seen(at(s.board, a, b), s.to_move) == seen(at(new_board.board, a, b), s.to_move) by {}
                lemma_attacked_same_view(s.board, new_board.board, s.to_move, king_sq(s, board.to_move).0 as int, king_sq(s, board.to_move).1 as int);
            }
            assert forall|i: int| lo <= i < new_moves@.len() implies legal_position(#[trigger] &new_moves@[i]) && is_successor(board, &new_moves@[i]) by {
                let s = &new_moves@[i];
                assert(gen_sound(board, s, square_cords));
                assert(king_sq(s, color) == king_after(board, fr, fc, tr, tc));
                assert(safe_after(board, fr, fc, tr, tc, s.pawn_promotion));
                assert(legal_step(board, fr, fc, mov, s.pawn_promotion, move_generation_mode));
                lemma_step_closure(board, s, fr, fc, mov, s.pawn_promotion, move_generation_mode);
                assert(pos_after(board, s, fr, fc, mov.0 as int, mov.1 as int, s.pawn_promotion) && succ_mode(move_generation_mode));
                assert(is_successor(board, s));
            }
        }""" % {'FR': FR}
PROMO_CMP = CMP + """proof {
            %(FR)s
            assert forall|i: int| pre_len <= i < new_moves@.len() implies legal_from(board, move_of(#[trigger] &new_moves@[i]), move_generation_mode) by {
                let s = &new_moves@[i];
                assert(gen_sound(board, s, square_cords));
                assert(king_sq(s, color) == king_after(board, fr, fc, tr, tc));
                assert(safe_after(board, fr, fc, tr, tc, s.pawn_promotion));
                assert(legal_step(board, fr, fc, mov, s.pawn_promotion, move_generation_mode));
            }
            lemma_step_push4(board, square_cords, moves@, __i - 1, pre, new_moves@, %(LO)s, color);
        }""" % {'LO': LO, 'FR': FR}

GMFP_INV = [
    '__i <= moves@.len()', '@C01| move_generation_mode == MoveGenerationMode::AllMoves', '@C13| move_generation_mode == MoveGenerationMode::CapturesOnly',
    'gen_pre(board, piece, square_cords)', 'piece == (Piece { color, kind })',
    'forall|i: int| 0 <= i < moves@.len() ==> target_ok(board, square_cords.0 as int, square_cords.1 as int, #[trigger] moves@[i])',
    'new_moves@.len() >= old(new_moves)@.len()',
    'forall|i: int| 0 <= i < old(new_moves)@.len() ==> new_moves@[i] == old(new_moves)@[i]',
    SND + 'forall|i: int| old(new_moves)@.len() <= i < new_moves@.len() ==> gen_sound(board, #[trigger] &new_moves@[i], square_cords)',
    SND + 'forall|i: int| old(new_moves)@.len() <= i < new_moves@.len() ==> legal_position(#[trigger] &new_moves@[i]) && is_successor(board, &new_moves@[i])',
    KEY + 'key_ok(board, zobrist_hasher)',
    KEY + 'forall|i: int| old(new_moves)@.len() <= i < new_moves@.len() ==> key_ok(#[trigger] &new_moves@[i], zobrist_hasher)',
    CMP + 'targets_distinct(moves@)',
    SND + 'forall|i: int| 0 <= i < moves@.len() ==> pseudo_target(board, square_cords.0 as int, square_cords.1 as int, #[trigger] moves@[i], move_generation_mode)',
    CMP + 'forall|t: Point| #[trigger] pseudo_target(board, square_cords.0 as int, square_cords.1 as int, t, move_generation_mode) ==> exists|j: int| 0 <= j < moves@.len() && #[trigger] moves@[j] == t',
    CMP + 'step_inv(board, square_cords, moves@, __i as int, new_moves@, old(new_moves)@.len() as int)',
    CMP + 'forall|i: int| old(new_moves)@.len() <= i < new_moves@.len() ==> legal_from(board, move_of(#[trigger] &new_moves@[i]), move_generation_mode)',
]
GMFP = {
    'isolated_loops': True,   # the big loop stays isolated: with the whole context visible its query does not finish
    'body_start': 'broadcast use axiom_boardstate_clone;',
    # C01 is the statement about full generation, C13 about capture-only generation; C02 / C05 cover every generated move,
    # so their runs keep the mode symbolic
    'requires': ['gen_pre(board, piece, square_cords)', KEY + 'key_ok(board, zobrist_hasher)', '@C01| move_generation_mode == MoveGenerationMode::AllMoves', '@C13| move_generation_mode == MoveGenerationMode::CapturesOnly'],
    'ensures': [
        'final(new_moves)@.len() >= old(new_moves)@.len()',
        'forall|i: int| 0 <= i < old(new_moves)@.len() ==> final(new_moves)@[i] == old(new_moves)@[i]',
        # C02: each successor is the position after the move its descriptor names; the mover's king is safe in it
        SND + 'forall|i: int| old(new_moves)@.len() <= i < final(new_moves)@.len() ==> gen_sound(board, #[trigger] &final(new_moves)@[i], square_cords)',
        # C02/C13 chains: every successor is again a legal position (the precondition of generation is re-established)
        SND + 'forall|i: int| old(new_moves)@.len() <= i < final(new_moves)@.len() ==> legal_position(#[trigger] &final(new_moves)@[i]) && is_successor(board, &final(new_moves)@[i])',
        # C05: the incremental key of each successor is its from-scratch key
        KEY + 'forall|i: int| old(new_moves)@.len() <= i < final(new_moves)@.len() ==> key_ok(#[trigger] &final(new_moves)@[i], zobrist_hasher)',
        # C01/C13: the appended successors are exactly the legal (capturing) non-castling moves of this piece --
        # no illegal move, no legal move missing, no move twice
        CMP + 'forall|i: int| old(new_moves)@.len() <= i < final(new_moves)@.len() ==> (#[trigger] final(new_moves)@[i]).last_move is Some && move_of(&final(new_moves)@[i]).0 == square_cords && legal_from(board, move_of(&final(new_moves)@[i]), move_generation_mode)',
        CMP + 'forall|m: Mv| m.0 == square_cords && #[trigger] legal_from(board, m, move_generation_mode) ==> has_move(final(new_moves)@, old(new_moves)@.len() as int, m)',
        CMP + 'distinct_moves(final(new_moves)@, old(new_moves)@.len() as int)',
    ],
    'block_end': [
        ('new_board.zobrist_key ^= zobrist_hasher.get_val_for_en_passant(en_passant_square.1)', 0, KEY + """proof {
                    let s = &new_board; let h = zobrist_hasher;
                    let e = h.ep(en_passant_square.1 as int);
                    lemma_key_component(kp(s, h), ks(s, h), kc1(s, h), kc2(s, h), kc3(s, h), kc4(s, h), 0u64, e);
                    assert(key_ok(s, h));
                }"""),
    ],
    'after_stmt': [
        ('promote_pawn(', 0, PROMO_CMP), ('promote_pawn(', 0, PROMO_SOUND),
        ('promote_pawn(', 1, PROMO_CMP), ('promote_pawn(', 1, PROMO_SOUND),
        
    ],
    'after_text': [
        ('if !is_check(&new_board, board.to_move) {', 0, SND + """proof {
            %(FR)s
            let s = &new_board;
            assert(is_ep_capture(board, fr, fc, tr, tc));
            assert(s.board == after_board(board, fr, fc, tr, tc, s.pawn_promotion));
            assert(rights_ok(board));
            assert(succ_ok(board, s, fr, fc, tr, tc));
            assert(gen_sound(board, s, square_cords));
            assert(ep_move(board, fr, fc, mov));
            assert(king_sq(s, board.to_move) == king_after(board, fr, fc, tr, tc));
            assert(safe_after(board, fr, fc, tr, tc, None));
            assert(legal_ep(board, fr, fc, mov, None));
            lemma_step_closure(board, s, fr, fc, mov, None, move_generation_mode);
            assert(pos_after(board, s, fr, fc, mov.0 as int, mov.1 as int, None) && succ_mode(move_generation_mode));
            assert(is_successor(board, s));
        }""" % {'FR': FR}),
        ('new_moves.push(new_board);', 0, CMP + """proof {
                    lemma_step_push1(board, square_cords, moves@, __i - 1, pre, new_moves@, %(LO)s, new_moves@[new_moves@.len() - 1]);
                }""" % {'LO': LO}),
    ],
    'before_text': [
        ('continue;', 0, CMP + """proof {
                %(FR)s
                let kp = king_after(board, fr, fc, tr, tc);
                assert(kp == king_sq(&new_board, color));
                assert forall|promo: Option<Piece>| promo_ok(board, fr, fc, tr, promo) implies !(#[trigger] safe_after(board, fr, fc, tr, tc, promo)) by {
                    let ab = after_board(board, fr, fc, tr, tc, promo);
                    assert(!is_ep_capture(board, fr, fc, tr, tc));
                    assert forall|a: int, b: int| #![trigger at(ab, a, b)] #![trigger at(new_board.board, a, b)] seen(at(ab, a, b), opp(color)) == seen(at(new_board.board, a, b), opp(color)) by {}
                    lemma_attacked_same_view(ab, new_board.board, opp(color), kp.0 as int, kp.1 as int);
                }
                lemma_step_skip(board, square_cords, moves@, __i - 1, new_moves@, %(LO)s);
            }""" % {'FR': FR, 'LO': LO}),
        ('if !is_check(&new_board, board.to_move) {', 0, """proof {
            %(FR)s
            assert(ep_ok(board));
            assert(at(board.board, tr, tc) == Square::Empty);
            assert(at(board.board, fr, tc) == Square::Full(Piece { kind: Pawn, color: opp(board.to_move) }));
            let b1 = upd2(upd2(board.board, fr, fc, Square::Empty), tr, tc, Square::Full(piece));
            assert(new_board.board == upd2(b1, fr, tc, Square::Empty));
            assert(wf(new_board.board) && kings_ok(&new_board)) by {
                reveal(kings_ok);
                assert forall|i: int, j: int| in_arr(i, j) implies #[trigger] at(new_board.board, i, j) == (if i == fr && j == tc { Square::Empty } else if i == tr && j == tc { Square::Full(piece) } else if i == fr && j == fc { Square::Empty } else { at(board.board, i, j) }) by {}
            }
        }""" % {'FR': FR}),
        ('// if you make a move, and you do not end up in check, then this move is valid', 0, KEY + """proof {
                let s = &new_board; let h = zobrist_hasher;
                let fr = square_cords.0 as int; let tc = mov.1 as int;
                let b1 = upd2(upd2(board.board, fr, square_cords.1 as int, Square::Empty), mov.0 as int, tc, Square::Full(piece));
                assert(s.board == upd2(b1, fr, tc, Square::Empty));
                assert(at(board.board, fr, tc) == Square::Full(Piece { kind: Pawn, color: opp(board.to_move) }));
                assert(b1[fr][tc] == Square::Full(Piece { kind: Pawn, color: opp(board.to_move) }));
                lemma_placement_update(h, b1, fr, tc, Square::Empty, 64);
                let d = h.pc(Piece { kind: Pawn, color: opp(board.to_move) }, fr, tc);
                let a = placement_hash(h, b1, 64);
                assert(d ^ 0u64 == d) by (bit_vector);
                lemma_key_component(a, ks(s, h), kc1(s, h), kc2(s, h), kc3(s, h), kc4(s, h), ep_hash(s, h), d);
                assert(key_ok(s, h));
            }"""),

        ('if is_check(&new_board, color) {', 0, """proof {
            %(FR)s
            assert(target_ok(board, fr, fc, mov));
            assert(new_board.board == upd2(upd2(board.board, fr, fc, Square::Empty), tr, tc, Square::Full(piece)));
            assert(wf(new_board.board) && kings_ok(&new_board)) by {
                reveal(kings_ok);
                assert forall|i: int, j: int| in_arr(i, j) implies #[trigger] at(new_board.board, i, j) == (if i == tr && j == tc { Square::Full(piece) } else if i == fr && j == fc { Square::Empty } else { at(board.board, i, j) }) by {}
            }
        }""" % {'FR': FR}),
        ('// deal with pawn promotions', 0, 'let ghost pre_len = new_moves@.len();'),

        ('new_moves.push(new_board);', 0, CMP + """proof {
            %(FR)s
            let s = &new_board;
            assert(legal_step(board, fr, fc, mov, s.pawn_promotion, move_generation_mode));
            assert(legal_from(board, move_of(s), move_generation_mode));
        }""" % {'FR': FR}),
        ('new_moves.push(new_board);', 0, SND + """proof {
            %(FR)s
            let s = &new_board;
            assert(s.board == after_board(board, fr, fc, tr, tc, s.pawn_promotion));
            assert(s.to_move == opp(board.to_move));
            assert(s.pawn_double_move == after_ep_target(board, fr, fc, tr, tc));
            assert(s.white_king_location == (if piece == (Piece { kind: King, color: White }) { Point(tr as usize, tc as usize) } else { board.white_king_location }));
            assert(rights_ok(board));
            assert(right(board, CastlingType::BlackKingSide) ==> at(board.board, 2, 9) == Square::Full(Piece { kind: Rook, color: Black }));
            assert(right(board, CastlingType::BlackQueenSide) ==> at(board.board, 2, 2) == Square::Full(Piece { kind: Rook, color: Black }));
            assert(right(board, CastlingType::WhiteKingSide) ==> at(board.board, 9, 9) == Square::Full(Piece { kind: Rook, color: White }));
            assert(right(board, CastlingType::WhiteQueenSide) ==> at(board.board, 9, 2) == Square::Full(Piece { kind: Rook, color: White }));
            assert(at(board.board, fr, fc) == Square::Full(piece));
            assert(s.white_king_side_castle == after_right(board, CastlingType::WhiteKingSide, fr, fc, tr, tc));
            assert(s.white_queen_side_castle == after_right(board, CastlingType::WhiteQueenSide, fr, fc, tr, tc));
            assert(s.black_king_side_castle == after_right(board, CastlingType::BlackKingSide, fr, fc, tr, tc));
            assert(s.black_queen_side_castle == after_right(board, CastlingType::BlackQueenSide, fr, fc, tr, tc));
            assert(promo_ok(board, fr, fc, tr, s.pawn_promotion));
            assert(succ_ok(board, s, fr, fc, tr, tc));
            assert(gen_sound(board, s, square_cords));
            assert(king_sq(s, color) == king_after(board, fr, fc, tr, tc));
            assert(safe_after(board, fr, fc, tr, tc, s.pawn_promotion));
            assert(legal_step(board, fr, fc, mov, s.pawn_promotion, move_generation_mode));
            lemma_step_closure(board, s, fr, fc, mov, s.pawn_promotion, move_generation_mode);
            assert(pos_after(board, s, fr, fc, mov.0 as int, mov.1 as int, s.pawn_promotion) && succ_mode(move_generation_mode));
            assert(is_successor(board, s));
        }""" % {'FR': FR}),
        ('// take care of en passant captures', 0, 'let ghost after_loop = new_moves@; let ghost mut ep_try: Option<Point> = None; let ghost mut ep_safe: bool = false;'),
        ('if let Some(mov) = en_passant {', 0, CMP + """proof {
            // the probe answers None only when no en-passant capture exists for this pawn (its rank follows from ep_ok)
            if en_passant is None {
                assert forall|t: Point| !ep_move(board, square_cords.0 as int, square_cords.1 as int, t) by {
                    if ep_geom(board.pawn_double_move, board.to_move, square_cords.0 as int, square_cords.1 as int, t) { assert(ep_ok(board)); }
                }
            }
        }"""),
        ('if !is_check(&new_board, board.to_move) {', 0, CMP + """proof {
            %(FR)s
            ep_try = Some(mov);
            assert(ep_move(board, fr, fc, mov));
            assert(is_ep_capture(board, fr, fc, tr, tc));
            assert(new_board.board == after_board(board, fr, fc, tr, tc, None));
            assert(king_sq(&new_board, board.to_move) == king_after(board, fr, fc, tr, tc));
            ep_safe = safe_after(board, fr, fc, tr, tc, None);
        }""" % {'FR': FR}),
    ],
    'loops': {0: {'invariant': GMFP_INV, 'decreases': 'moves@.len() - __i',
                  'body_start': 'broadcast use axiom_boardstate_clone; let ghost pre = new_moves@;',
                  'after': CMP + """proof {
        // every pseudo target is some moves@[j]; the invariant at __i == len gives the successor
        assert forall|t: Point, promo: Option<Piece>| #[trigger] legal_step(board, square_cords.0 as int, square_cords.1 as int, t, promo, move_generation_mode)
            implies has_succ(new_moves@, %(LO)s, square_cords, t, promo) by {
            let j = choose|j: int| 0 <= j < moves@.len() && #[trigger] moves@[j] == t;
            assert(has_succ(new_moves@, %(LO)s, square_cords, moves@[j], promo));
        }
    }""" % {'LO': LO}}},
    'at_end': CMP + """proof {
        let lo = %(LO)s; let v = new_moves@; let fr = square_cords.0 as int; let fc = square_cords.1 as int;
        let n0 = after_loop.len() as int;
        assert(prefix_kept(after_loop, v));
        // what the en-passant block did: nothing, or exactly one more successor
        assert(v.len() == n0 || (v.len() == n0 + 1 && ep_try is Some && ep_safe && v[n0].last_move == Some((square_cords, ep_try.unwrap())) && v[n0].pawn_promotion is None));
        assert(ep_try is Some ==> ep_move(board, fr, fc, ep_try.unwrap()) && (ep_safe == safe_after(board, fr, fc, ep_try.unwrap().0 as int, ep_try.unwrap().1 as int, None)) && (ep_safe ==> v.len() == n0 + 1));
        assert(ep_try is None ==> forall|t: Point| !ep_move(board, fr, fc, t));
        // every appended successor is a legal move of this piece
        assert forall|i: int| lo <= i < v.len() implies (#[trigger] v[i]).last_move is Some && move_of(&v[i]).0 == square_cords && legal_from(board, move_of(&v[i]), move_generation_mode) by {
            if i < n0 {
                assert(v[i] == after_loop[i]);
                assert(from_earlier(&after_loop[i], square_cords, moves@, moves@.len() as int));
            } else {
                assert(legal_ep(board, fr, fc, ep_try.unwrap(), None));
            }
        }
        // every legal move of this piece was appended
        assert forall|m: Mv| m.0 == square_cords && #[trigger] legal_from(board, m, move_generation_mode) implies has_move(v, lo, m) by {
            if legal_step(board, fr, fc, m.1, m.2, move_generation_mode) {
                assert(has_succ(after_loop, lo, square_cords, m.1, m.2));
                let i = choose|i: int| lo <= i < after_loop.len() && #[trigger] is_succ(&after_loop[i], square_cords, m.1, m.2);
                assert(v[i] == after_loop[i]);
                assert(v[i].last_move is Some && move_of(&v[i]) == m);
            } else {
                assert(legal_ep(board, fr, fc, m.1, m.2));
                assert(ep_try == Some(m.1));
                assert(v[n0].last_move is Some && move_of(&v[n0]) == m);
            }
        }
        // no move twice: the loop's successors are pairwise different, and the en-passant target is an empty square on
        // another file, which no pseudo-legal pawn target is
        assert(distinct_moves(v, lo)) by {
            assert forall|i: int, j: int| lo <= i < j < v.len() implies move_of(&v[i]) != move_of(&v[j]) by {
                assert(v[i] == after_loop[i]);
                assert(from_earlier(&after_loop[i], square_cords, moves@, moves@.len() as int));
                if j < n0 {
                    assert(v[j] == after_loop[j]);
                    assert(from_earlier(&after_loop[j], square_cords, moves@, moves@.len() as int));
                } else {
                    let k = choose|k: int| 0 <= k < moves@.len() && after_loop[i].last_move == Some((square_cords, #[trigger] moves@[k]));
                    assert(target_ok(board, fr, fc, moves@[k]));
                    assert(ep_ok(board));
                }
            }
        }
    }""" % {'LO': LO},
    'expect': {'loops': ['while'], 'contains': ['get_moves(', 'new_board.move_piece(square_cords, mov, zobrist_hasher)', 'if is_check(&new_board, color)', 'take_away_castling_rights(', '(square_cords.0 as i8 - mov.0 as i8).abs() == 2', 'promote_pawn(', 'pawn_moves_en_passant(', 'if !is_check(&new_board, board.to_move)']},
}

P = ('C01', 'C02', 'C05', 'C13')


def build(g):
    g.add(LEMMAS)
    g.add(g.fn('move_generation', 'promote_pawn', PROMOTE, rewrites=[R2], props=P, own=('C01', 'C02', 'C13')))
    g.add(g.fn('move_generation', 'pawn_moves_en_passant', EP, props=P, own=('C01', 'C13')))
    g.add(g.fn('move_generation', 'generate_moves_for_piece', GMFP, rewrites=[R1], props=P, own=()))   # only tagged clauses are own obligations
