"""Which bundles / engines decide which property (the fixed properties are in /verif/properties.jsonl)."""
from . import attack, hashl, evaluation, draw, rules, targets, succ, castle, top, ucimove, closure, fenpiece

WL_ATTACK = ['external_body:axiom_i8_add_assign_ref', 'assume_specification:i8::abs']
TB_COMMON = [
    'Verus 0.2026.09.13 (rust_verify + vstd + bundled Z3) and rustc 1.98.1',
    'axiom_i8_add_assign_ref (external_body proof fn): `i8 += &i8` is checked addition (vstd lacks the impl; orphan rule) -- discharged on the real operator by Kani harness axiom_i8_add_assign_ref_holds (C06/C02 quick)',
    'assume_specification[i8::abs]: x != MIN ==> result == |x| -- discharged by Kani harness axiom_i8_abs_holds',
    'axiom_boardstate_clone (movegen bundles): derived Clone returns an equal value -- discharged by Kani harness axiom_boardstate_clone_holds on the real derive (C02 quick, others thorough); the link Verus axiom <-> Kani harness is by construction',
    'PartialEqSpecImpl impls for the plain data types: Verus checks the derived eq bodies against them',
    'extraction: items copied byte-for-byte from /repo/src on every run; only insertions of contracts/invariants/proof blocks (vlib/extract.py)',
]
DROPPED_COMMON = ['everything not in functions_under_contract: Display/FromStr impls and printing, from_fen, engine.rs, search.rs, main.rs, the UCI loop',
                  'use colored/log lines', '#[cfg(test)] modules']


def b_attack(g):
    attack.build(g)


def b_hash(g):
    attack.build(g); hashl.build(g)


def b_eval(g):
    attack.build(g); evaluation.build(g)


def b_fenpiece(g):
    attack.build(g); fenpiece.build(g)


def b_draw(g):
    attack.build(g); draw.build(g)


def b_targets(g):
    attack.build(g); hashl.build(g); rules.build(g); targets.build(g); succ.build(g); castle.build(g); top.build(g); closure.build(g)


WL_MOVEGEN = WL_ATTACK + ['external_body:axiom_boardstate_clone']
WL_UCI = WL_MOVEGEN + ['assume_specification:str::contains::<P>', 'external_body:__verif_char_at', 'external_body:__verif_square_at']


def b_uci(g):
    b_targets(g); ucimove.build(g)


UCI = {'name': 'uci', 'build': b_uci, 'rlimit': 60, 'rlimits': {'make_move': 400},
       'units_filter': lambda u: u.startswith(('BoardState::', 'ZobristHasher::')) or u in ('PieceKind::index', 'Piece::index', 'PieceColor::opposite', 'Piece::pawn', 'Piece::king', 'Square::eq', 'make_move', 'Square::from', 'lemma_castle_shape', 'lemma_step_closure', 'lemma_castle_closure', 'lemma_chain_closure', 'lemma_after_board_cells', 'lemma_ray_offrow', 'lemma_castled_row_safe', 'lemma_target_not_king', 'lemma_slider_on_board', 'lemma_slider_target_attacked', 'lemma_knight_target_attacked', 'lemma_clear_sym', 'lemma_key_component', 'lemma_placement_update', 'lemma_xor_swap', 'placement_hash', 'lemma_mul_unit')}
MOVEGEN = {'name': 'movegen', 'build': b_targets, 'rlimit': 60,
           'rlimits': {'generate_moves_for_piece': 400, 'generate_castling_moves': 300},
           'canary_quick': ['is_check', 'is_check_cords', 'get_moves', 'promote_pawn', 'pawn_moves_en_passant', 'knight_moves', 'generate_moves']}

from vlib import kani as K
from vlib import hunter as H

KANI_C09 = K.make_engine({'time_control.rs': 'time_control_harness.rs'},
                         [('time_control.rs', 'calculate_time_slice', 'GameTime', 'time_control_contract.txt')],
                         [{'name': 'c09_contract_full_domain', 'timeout': 900, 'what': 'function contract of GameTime::calculate_time_slice over the full i128 x Option<u32> domain, both colours: slice <= mover clock when clock > 100; slice == 0 when clock <= 100 and increment <= 0'},
                          {'name': 'c09_cover_regimes', 'timeout': 900, 'what': 'reachability of the three regimes behind the precondition (vacuity guard)'},
                          {'name': 'c09_bounded_small_clock', 'timeout': 900, 'bounded': 'mover clock 101..=355 ms, movestogo absent or 1..=3 or 31..=33, all other fields arbitrary i128',
                           'what': '|slice*mtg*10 - 8*(clock-100)| <= 10*mtg on the small-clock band'},
                          {'name': 'c09_bounded_eighty_percent', 'timeout': 1800, 'tier': 'thorough', 'bounded': 'mover clock in i16, movestogo absent or 1..=64, all other fields arbitrary i128',
                           'what': '|slice*mtg*10 - 8*(clock-100)| <= 10*mtg, i.e. within 1 ms of 0.8*(clock-100)/mtg; independent of the other side'}])
KANI_C15 = K.make_engine({'board.rs': 'board_harness.rs'}, [],
                         [{'name': 'c15_point_from_str_total_and_faithful', 'timeout': 1800, 'what': 'Point::from_str on every valid-UTF-8 byte string of length <= 4: no panic, Ok exactly for [a-h][1-8], decoded square correct'}])

KANI_C04 = K.make_engine({'uci.rs': 'uci_harness.rs'}, [],
                         [{'name': 'c04_text_squares', 'timeout': 3000, 'what': 'for all 20480 UCI move strings: (s[0..2]).parse::<Point>() and (s[2..4]).parse::<Point>() give the squares the string spells (text_facts conjuncts 1-2)'},
                          {'name': 'c04_text_len_and_letter', 'timeout': 3000, 'what': 'len == 5 <=> promotion; chars().nth(4) is the promotion letter (text_facts conjuncts 3-4)'},
                          {'name': 'c04_text_corner_a8', 'timeout': 3000, 'what': 'str::contains("a8") <=> the move starts or ends on a8 (text_facts corner conjunct)'},
                          {'name': 'c04_text_corner_h8', 'timeout': 3000, 'what': 'str::contains("h8") <=> the move starts or ends on h8 (text_facts corner conjunct)'},
                          {'name': 'c04_text_corner_a1', 'timeout': 3000, 'what': 'str::contains("a1") <=> the move starts or ends on a1 (text_facts corner conjunct)'},
                          {'name': 'c04_text_corner_h1', 'timeout': 3000, 'what': 'str::contains("h1") <=> the move starts or ends on h1 (text_facts corner conjunct)'},
                          {'name': 'c04_text_castle_strings', 'timeout': 3000, 'what': 'equality with the four castling strings (text_facts conjuncts 9-12)'}])

KANI_PRINT = K.make_engine({'board.rs': 'board_text_harness.rs'}, [],
                           [{'name': 'c02_point_text_roundtrip', 'timeout': 1500, 'what': 'for all 64 on-board points: Display text is [a-h][1-8] naming the square and parses back to the point (the text printed as bestmove)'},
                            {'name': 'c02_promotion_letters', 'timeout': 600, 'what': 'PieceKind::alg prints q n b r for the four promotion kinds'}])


def KANI_AXIOMS(clone_tier=None, i8_tier=None):
    hs = [{'name': 'axiom_i8_add_assign_ref_holds', 'timeout': 600, 'what': 'glue axiom axiom_i8_add_assign_ref discharged on the real `i8 += &i8` over the full i8 x i8 domain'},
          {'name': 'axiom_i8_abs_holds', 'timeout': 600, 'what': 'glue assumption on i8::abs discharged over the full i8 domain'}]
    for h in hs:
        if i8_tier:
            h['tier'] = i8_tier
    c = {'name': 'axiom_boardstate_clone_holds', 'timeout': 1800, 'what': 'glue axiom axiom_boardstate_clone discharged on the real derived Clone with all 144 squares and every other field symbolic'}
    if clone_tier:
        c['tier'] = clone_tier
    return {'run': K.make_engine({'board.rs': 'axioms_harness.rs'}, [], hs + [c])}


def CROSS(what):
    return {'run': H.make_bounded_engine('cross-check on the unchanged tree: ' + what, 'seeded random: curated + random legal positions, random walks by the oracle', 0, 240), 'tier': 'thorough'}


PROPS = {
    'C09': {
        'engines': [{'run': KANI_C09}, {'run': K.make_engine({'uci.rs': 'uci_go_harness.rs'}, [],
                     [{'name': 'c09_go_single_pair_routing', 'timeout': 3600, 'tier': 'thorough', 'bounded': 'go lines with exactly one key/value pair, the five clock keywords, values of 1-3 digits (complete for that grammar, ~18 min)',
                       'what': 'the real parse_go_command routes the value of `go <key> <value>` into its own GameTime field and nowhere else'}]), 'tier': 'thorough'}, {'run': H.make_bounded_engine('go-line routing: parse_go_command puts every clock/increment/movestogo token into its own field whatever the order and whatever unknown tokens surround it; the resulting slice obeys the contract', 'seeded random go lines (0-5 fields, random order, unknown tokens interleaved) plus a value grid for calculate_time_slice', 6, 120)}],
        'whitelist': [], 'trusted_base': ['Kani 0.68 + CBMC 6.11 (bit-precise incl. IEEE-754 f64) + CaDiCaL', 'rustc; the scratch crate is /repo/src plus appended cfg(kani) modules and inserted contract attributes'],
        'dropped': ['everything except time_control.rs::GameTime::calculate_time_slice'],
        'explanation': 'Kani function contract on the real calculate_time_slice, proved loop-free over the full input domain',
        'assumptions': ['movestogo, when given, is >= 1 (UCI); Some(0) divides by zero and is excluded by the precondition'],
        'not_decided': ['"at most 80% of (clock - margin) / moves to go" on the full domain (128-bit product in the postcondition does not terminate; bounded stand-in in the thorough tier)',
                        'parse_go_command token routing (string code)', 'actual go->bestmove delay equals the plan (wall clock, threads)'],
    },
    'C15': {
        'verus': [{'name': 'fenpiece', 'build': b_fenpiece, 'rlimit': 30, 'units_filter': lambda u: u == 'BoardState::piece_from_fen_string_char'}],
        'engines': [{'run': KANI_C15}, {'run': H.make_bounded_engine('from_fen: never panics on mutated FEN text; every well-formed FEN of a legal position (oracle-generated, counters up to 65535) loads to exactly that position with its from-scratch key', 'seeded random: curated + random legal positions x 8 counter pairs, and 1-3 random edits of each text', 15, 240)}],
        'whitelist': WL_ATTACK, 'trusted_base': ['Kani 0.68 + CBMC 6.11 + CaDiCaL', 'rustc; scratch crate = /repo/src + appended cfg(kani) module'],
        'dropped': ['everything except board.rs::<Point as FromStr>::from_str'],
        'explanation': 'loop-bounded-by-input-length harness over all <=4-byte UTF-8 strings for the en-passant-square parser',
        'assumptions': [],
        'not_decided': ['from_fen field splitting, row/column bounds, counters, placement faithfulness, from-scratch key: String/split/collect/parse code that Verus cannot parse and Kani does not finish (DESIGN App. B)', 'CLI behaviour'],
    },
    'C01': {
        'verus': [MOVEGEN],
        'engines': [KANI_AXIOMS(clone_tier='thorough', i8_tier='thorough'), CROSS("generate_moves(AllMoves) as a set == the oracle's legal moves, also from engine-produced parents")],
        'whitelist': WL_MOVEGEN, 'trusted_base': TB_COMMON, 'dropped': DROPPED_COMMON,
        'explanation': 'wip', 'assumptions': [], 'not_decided': [],
    },
    'C04': {
        'verus': [UCI],
        'engines': [{'run': KANI_PRINT}, {'run': KANI_C04}, {'run': H.make_bounded_engine('play_out_position glue and make_move on real text: for every oracle-legal move of each position make_move(text) gives the position/key the rules give; every generated successor printed and replayed reproduces itself; whole `position ... moves ...` commands replayed', 'seeded random: curated + random legal positions, random walks, random games up to 24 moves', 15, 300)}],
        'whitelist': WL_UCI, 'trusted_base': TB_COMMON, 'dropped': DROPPED_COMMON,
        'explanation': 'wip', 'assumptions': [], 'not_decided': [],
    },
    'C02': {
        'verus': [MOVEGEN],
        'engines': [KANI_AXIOMS(), {'run': KANI_PRINT}, CROSS('every successor of generate_moves (both modes, chains of depth 2) == oracle apply(move); printed text == move')],
        'whitelist': WL_MOVEGEN, 'trusted_base': TB_COMMON, 'dropped': DROPPED_COMMON,
        'explanation': 'wip', 'assumptions': [], 'not_decided': [],
    },
    'C13': {
        'verus': [MOVEGEN],
        'engines': [KANI_AXIOMS(clone_tier='thorough', i8_tier='thorough'), CROSS('generate_moves(CapturesOnly) == oracle legal captures; capture chains of depth 2')],
        'whitelist': WL_MOVEGEN, 'trusted_base': TB_COMMON, 'dropped': DROPPED_COMMON,
        'explanation': 'wip', 'assumptions': [], 'not_decided': [],
    },
    'C10': {
        'verus': [{'name': 'draw', 'build': b_draw, 'rlimit': 30}],
        'engines': [{'run': H.make_bounded_engine('position handler: after clear + play_out_position the repetition record holds exactly the occurrence count of every position of the described game (start included) and nothing else; final board and key as the rules give', 'seeded random games: startpos or curated/random FEN, up to 24 oracle-legal moves biased towards repetitions', 8, 180)}],
        'whitelist': WL_ATTACK,
        'trusted_base': TB_COMMON + ["vstd's model of std::collections::HashMap (u64 keys obey the key model)"],
        'dropped': DROPPED_COMMON + ['DrawTable::remove_board_from_draw_table (Some(&val) pattern unsupported by Verus)'],
        'explanation': 'exact per-operation counts of the repetition table with frame; seen >= 2 <=> draw',
        'assumptions': ['positions are identified with their 64-bit keys (collisions not excluded)'],
        'not_decided': ['play_out_position clear/insert/add loop (string code)', 'search clause: score never below zero when a repetition is available (search is outside both verifiers)'],
    },
    'C14': {
        'verus': [{'name': 'eval', 'build': b_eval, 'rlimit': 60}],
        'engines': [CROSS('mirror / negation / placement-only / bound on random placements')],
        'whitelist': WL_ATTACK,
        'trusted_base': TB_COMMON,
        'dropped': DROPPED_COMMON,
        'explanation': 'get_evaluation(b) == eval_spec(b.board, b.to_move); mirror, negation and bound lemmas over eval_spec',
        'assumptions': [],
        'not_decided': [],
    },
    'C05': {
        'verus': [{'name': 'hash', 'build': b_hash, 'rlimit': 30}, MOVEGEN, dict(UCI, units_filter=lambda u: u in ('make_move', 'Square::from'))],
        'engines': [KANI_AXIOMS(clone_tier='thorough', i8_tier='thorough'), {'run': H.make_bounded_engine('routes: every successor of generate_moves (both modes, also from engine-produced parents) and every make_move result has key == from-scratch key; from_fen of oracle-generated FENs gives the from-scratch key', 'seeded random: curated + random legal positions and random walks', 12, 240)}],
        'whitelist': WL_UCI,
        'trusted_base': TB_COMMON,
        'dropped': DROPPED_COMMON,
        'explanation': 'key_ok as representation invariant',
        'assumptions': [],
        'not_decided': [],
    },
    'C06': {
        'verus': [{'name': 'attack', 'build': b_attack, 'rlimit': 30}],
        'engines': [KANI_AXIOMS(clone_tier='thorough'), CROSS('is_check == oracle attack test on arbitrary placements with one king per side')],
        'whitelist': WL_ATTACK,
        'trusted_base': TB_COMMON,
        'dropped': DROPPED_COMMON,
        'explanation': 'is_check(b, c) == attacked_by(b.board, opp(c), king square of c) for every placement with wf board and one king per side (cached squares correct); attacked_by is written from the movement rules (rays stopped by the first piece, pawn diagonals forward, knight, adjacent king).',
        'assumptions': ['cached king squares point at the kings (kings_ok) -- re-established by the successor contracts of C02/C04',
                        'termination of every loop proved (decreases); machine arithmetic not idealised (every cast/index/add checked)'],
        'not_decided': [],
    },
}
