"""C14 -- static evaluation: symmetric, side-relative, placement-only, bounded.

Units: mg_table, eg_table, mg_piece_val, eg_piece_val, game_phase_val, get_evaluation (+ 12 const tables copied).
eval_spec is a nested row/column sum of per-square contributions drawn from the real const tables; the piece values
and phase weights are the function bodies themselves (copied match expressions), so a retuned evaluation keeps
verifying as long as it stays symmetric and bounded.
"""
import re
KINDS = ['PAWN', 'KNIGHT', 'BISHOP', 'ROOK', 'QUEEN', 'KING']

def tab(prefix):
    return 'match kind { ' + ', '.join('%s => %s_%s_TABLE[r][c] as int' % (k.capitalize(), prefix, k) for k in KINDS) + ' }'

def body_of(g, name):
    """the function body (a single match expression) as spec text"""
    t, _ = g._fn_text('evaluation', name)
    ob = t.index('{'); cb = t.rindex('}')
    return ' '.join(t[ob + 1:cb].split())

SPEC_T = r'''
pub closed spec fn mg_tab(kind: PieceKind, r: int, c: int) -> int { %(MGT)s }
pub closed spec fn eg_tab(kind: PieceKind, r: int, c: int) -> int { %(EGT)s }
pub closed spec fn mg_val(kind: PieceKind) -> int { %(MGV)s }
pub closed spec fn eg_val(kind: PieceKind) -> int { %(EGV)s }
pub closed spec fn phase_val(kind: PieceKind) -> int { %(PHV)s }
// contribution of the piece on (r,c) to accumulator k: 0 white mg, 1 black mg, 2 white eg, 3 black eg, 4 phase.
// White reads its table from its own side of the board, Black reads the same table mirrored in the ranks.
pub closed spec fn contrib(k: int, s: Square, r: int, c: int) -> int {
    match s {
        Square::Full(p) =>
            if k == 4 { phase_val(p.kind) }
            else if p.color == White { if k == 0 { mg_tab(p.kind, r - 2, c - 2) + mg_val(p.kind) } else if k == 2 { eg_tab(p.kind, r - 2, c - 2) + eg_val(p.kind) } else { 0 } }
            else { if k == 1 { mg_tab(p.kind, 9 - r, c - 2) + mg_val(p.kind) } else if k == 3 { eg_tab(p.kind, 9 - r, c - 2) + eg_val(p.kind) } else { 0 } },
        _ => 0,
    }
}
pub closed spec fn row_sum(k: int, bd: [[Square; 12]; 12], r: int, c_upto: int) -> int decreases c_upto {
    if c_upto <= 2 { 0 } else { row_sum(k, bd, r, c_upto - 1) + contrib(k, bd[r][c_upto - 1], r, c_upto - 1) }
}
pub closed spec fn rows_sum(k: int, bd: [[Square; 12]; 12], r_upto: int) -> int decreases r_upto {
    if r_upto <= 2 { 0 } else { rows_sum(k, bd, r_upto - 1) + row_sum(k, bd, r_upto - 1, 10) }
}
pub open spec fn tdiv(x: int, d: int) -> int { if x >= 0 { x / d } else { -((-x) / d) } }
pub closed spec fn eval_spec(bd: [[Square; 12]; 12], side: PieceColor) -> int {
    let wmg = rows_sum(0, bd, 10); let bmg = rows_sum(1, bd, 10); let weg = rows_sum(2, bd, 10); let beg = rows_sum(3, bd, 10);
    let ph = if rows_sum(4, bd, 10) > 24 { 24 } else { rows_sum(4, bd, 10) };
    let mg = if side == White { wmg - bmg } else { bmg - wmg };
    let eg = if side == White { weg - beg } else { beg - weg };
    tdiv(mg * ph + eg * (24 - ph), 24)
}
proof fn lemma_contrib_bound(k: int, s: Square, r: int, c: int)
    requires 0 <= k <= 4, on_board(r, c)
    ensures -1500 <= contrib(k, s, r, c) <= 1500, k == 4 ==> 0 <= contrib(k, s, r, c) <= 100
{}
proof fn lemma_row_bound(k: int, bd: [[Square; 12]; 12], r: int, c_upto: int)
    requires 0 <= k <= 4, 2 <= r < 10, 2 <= c_upto <= 10
    ensures -1500 * (c_upto - 2) <= row_sum(k, bd, r, c_upto) <= 1500 * (c_upto - 2), k == 4 ==> 0 <= row_sum(k, bd, r, c_upto) <= 100 * (c_upto - 2)
    decreases c_upto
{
    if c_upto > 2 { lemma_row_bound(k, bd, r, c_upto - 1); lemma_contrib_bound(k, bd[r][c_upto - 1], r, c_upto - 1); }
}
proof fn lemma_rows_bound(k: int, bd: [[Square; 12]; 12], r_upto: int)
    requires 0 <= k <= 4, 2 <= r_upto <= 10
    ensures -12000 * (r_upto - 2) <= rows_sum(k, bd, r_upto) <= 12000 * (r_upto - 2), k == 4 ==> 0 <= rows_sum(k, bd, r_upto) <= 800 * (r_upto - 2)
    decreases r_upto
{
    if r_upto > 2 { lemma_rows_bound(k, bd, r_upto - 1); lemma_row_bound(k, bd, r_upto - 1, 10); }
}
'''

LEMMAS = r"""
// ---- C14 lemmas ----
pub open spec fn swap_sq(s: Square) -> Square { match s { Square::Full(p) => Square::Full(Piece { kind: p.kind, color: opp(p.color) }), _ => s } }
// m is bd with ranks flipped and colours swapped
pub open spec fn is_mirror(bd: [[Square; 12]; 12], m: [[Square; 12]; 12]) -> bool {
    forall|i: int, j: int| on_board(i, j) ==> #[trigger] m[i][j] == swap_sq(bd[11 - i][j])
}
pub open spec fn other(k: int) -> int { if k == 0 { 1 } else if k == 1 { 0 } else if k == 2 { 3 } else if k == 3 { 2 } else { 4 } }
proof fn lemma_row_mirror(k: int, bd: [[Square; 12]; 12], m: [[Square; 12]; 12], r: int, c_upto: int)
    requires is_mirror(bd, m), 0 <= k <= 4, 2 <= r < 10, 2 <= c_upto <= 10
    ensures row_sum(k, m, r, c_upto) == row_sum(other(k), bd, 11 - r, c_upto)
    decreases c_upto
{
    if c_upto > 2 {
        lemma_row_mirror(k, bd, m, r, c_upto - 1);
        assert(m[r][c_upto - 1] == swap_sq(bd[11 - r][c_upto - 1]));
    }
}
proof fn lemma_rows_unroll(k: int, bd: [[Square; 12]; 12])
    ensures rows_sum(k, bd, 10) == row_sum(k, bd, 2, 10) + row_sum(k, bd, 3, 10) + row_sum(k, bd, 4, 10) + row_sum(k, bd, 5, 10)
        + row_sum(k, bd, 6, 10) + row_sum(k, bd, 7, 10) + row_sum(k, bd, 8, 10) + row_sum(k, bd, 9, 10)
{
    reveal_with_fuel(rows_sum, 10);
}
proof fn lemma_rows_mirror(k: int, bd: [[Square; 12]; 12], m: [[Square; 12]; 12])
    requires is_mirror(bd, m), 0 <= k <= 4
    ensures rows_sum(k, m, 10) == rows_sum(other(k), bd, 10)
{
    lemma_rows_unroll(k, m); lemma_rows_unroll(other(k), bd);
    lemma_row_mirror(k, bd, m, 2, 10); lemma_row_mirror(k, bd, m, 3, 10); lemma_row_mirror(k, bd, m, 4, 10); lemma_row_mirror(k, bd, m, 5, 10);
    lemma_row_mirror(k, bd, m, 6, 10); lemma_row_mirror(k, bd, m, 7, 10); lemma_row_mirror(k, bd, m, 8, 10); lemma_row_mirror(k, bd, m, 9, 10);
}
// C14(a): the colour-mirrored twin evaluates to the same number
proof fn lemma_eval_mirror(bd: [[Square; 12]; 12], m: [[Square; 12]; 12], side: PieceColor)
    requires is_mirror(bd, m)
    ensures eval_spec(m, opp(side)) == eval_spec(bd, side)
{
    lemma_rows_mirror(0, bd, m); lemma_rows_mirror(1, bd, m); lemma_rows_mirror(2, bd, m); lemma_rows_mirror(3, bd, m); lemma_rows_mirror(4, bd, m);
}
// C14(b): same placement, other side to move: negated
proof fn lemma_eval_negate(bd: [[Square; 12]; 12], side: PieceColor)
    ensures eval_spec(bd, opp(side)) == -eval_spec(bd, side)
{
    let wmg = rows_sum(0, bd, 10); let bmg = rows_sum(1, bd, 10); let weg = rows_sum(2, bd, 10); let beg = rows_sum(3, bd, 10);
    let ph = if rows_sum(4, bd, 10) > 24 { 24 } else { rows_sum(4, bd, 10) };
    let mg = if side == White { wmg - bmg } else { bmg - wmg };
    let eg = if side == White { weg - beg } else { beg - weg };
    assert((-mg) * ph + (-eg) * (24 - ph) == -(mg * ph + eg * (24 - ph))) by (nonlinear_arith);
}
// per-square: a square holds a piece of one colour only, so |white part - black part| <= 1500
proof fn lemma_row_diff(bd: [[Square; 12]; 12], k: int, r: int, c_upto: int)
    requires k == 0 || k == 2, 2 <= r < 10, 2 <= c_upto <= 10
    ensures -1500 * (c_upto - 2) <= row_sum(k, bd, r, c_upto) - row_sum(k + 1, bd, r, c_upto) <= 1500 * (c_upto - 2)
    decreases c_upto
{
    if c_upto > 2 { lemma_row_diff(bd, k, r, c_upto - 1); lemma_contrib_bound(k, bd[r][c_upto - 1], r, c_upto - 1); lemma_contrib_bound(k + 1, bd[r][c_upto - 1], r, c_upto - 1); }
}
proof fn lemma_rows_diff(bd: [[Square; 12]; 12], k: int, r_upto: int)
    requires k == 0 || k == 2, 2 <= r_upto <= 10
    ensures -12000 * (r_upto - 2) <= rows_sum(k, bd, r_upto) - rows_sum(k + 1, bd, r_upto) <= 12000 * (r_upto - 2)
    decreases r_upto
{
    if r_upto > 2 { lemma_rows_diff(bd, k, r_upto - 1); lemma_row_diff(bd, k, r_upto - 1, 10); }
}
// C14(c): for EVERY placement the magnitude stays below the mate range (MATE_SCORE - 15 = 99985)
proof fn lemma_eval_bound(bd: [[Square; 12]; 12], side: PieceColor)
    ensures -96000 <= eval_spec(bd, side) <= 96000
{
    lemma_rows_diff(bd, 0, 10); lemma_rows_diff(bd, 2, 10); lemma_rows_bound(4, bd, 10);
    let wmg = rows_sum(0, bd, 10); let bmg = rows_sum(1, bd, 10); let weg = rows_sum(2, bd, 10); let beg = rows_sum(3, bd, 10);
    let ph = if rows_sum(4, bd, 10) > 24 { 24 } else { rows_sum(4, bd, 10) };
    let mg = if side == White { wmg - bmg } else { bmg - wmg };
    let eg = if side == White { weg - beg } else { beg - weg };
    assert(-96000 * 24 <= mg * ph + eg * (24 - ph) <= 96000 * 24) by (nonlinear_arith)
        requires -96000 <= mg <= 96000, -96000 <= eg <= 96000, 0 <= ph <= 24;
}
"""
ACC = ['white_mg', 'black_mg', 'white_eg', 'black_eg', 'game_phase']
def acc_inv(expr_r, expr_c=None):
    out = []
    for k, a in enumerate(ACC):
        if expr_c is None: out.append('%s == rows_sum(%d, board.board, %s)' % (a, k, expr_r))
        else: out.append('%s == rows_sum(%d, board.board, %s) + row_sum(%d, board.board, %s, %s)' % (a, k, expr_r, k, expr_r, expr_c))
    return out
GE = {
    'ret': 'res',
    'ensures': ['res == eval_spec(board.board, board.to_move)'],
    'loops': {
        0: {'iter': 'itr', 'invariant': acc_inv('row as int') + ['2 <= row <= 10'],
            'body_start': 'proof { ' + ' '.join('lemma_rows_bound(%d, board.board, row as int);' % k for k in range(5)) + ' }'},
        1: {'iter': 'itc', 'invariant': acc_inv('row as int', 'col as int') + ['2 <= row < 10', '2 <= col <= 10'],
            'body_start': 'proof { ' + ' '.join('lemma_rows_bound(%d, board.board, row as int); lemma_row_bound(%d, board.board, row as int, col as int); lemma_contrib_bound(%d, board.board[row as int][col as int], row as int, col as int);' % (k, k, k) for k in range(5)) + ' }'},
    },
    'before_text': [('(mg_score * mg_phase + eg_score * eg_phase) / 24', 0, '''proof {
        assert(-200000 <= mg_score <= 200000 && -200000 <= eg_score <= 200000 && 0 <= mg_phase <= 24 && 0 <= eg_phase <= 24);
        assert(-4800000 <= mg_score * mg_phase <= 4800000) by (nonlinear_arith) requires -200000 <= mg_score <= 200000, 0 <= mg_phase <= 24;
        assert(-4800000 <= eg_score * eg_phase <= 4800000) by (nonlinear_arith) requires -200000 <= eg_score <= 200000, 0 <= eg_phase <= 24;
    }'''), ('let mg_score;', 0, 'proof { ' + ' '.join('lemma_rows_bound(%d, board.board, 10);' % k for k in range(5)) + ' }')],
}

P = ('C14',)

def tabfn(g, name, specname):
    return g.fn('evaluation', name, {'ret': 'res', 'ensures': ['forall|r: int, c: int| 0 <= r < 8 && 0 <= c < 8 ==> #[trigger] res[r][c] == %s(kind, r, c)' % specname]}, props=P)

def build(g):
    g.add('\n'.join(g.const('evaluation', '%s_%s_TABLE' % (p, k)) for p in ['MG', 'EG'] for k in KINDS))
    g.add(SPEC_T % {'MGT': tab('MG'), 'EGT': tab('EG'), 'MGV': body_of(g, 'mg_piece_val'), 'EGV': body_of(g, 'eg_piece_val'), 'PHV': body_of(g, 'game_phase_val')})
    g.add(tabfn(g, 'mg_table', 'mg_tab'), tabfn(g, 'eg_table', 'eg_tab'),
          g.fn('evaluation', 'mg_piece_val', {'ret': 'res', 'ensures': ['res == mg_val(kind)']}, props=P),
          g.fn('evaluation', 'eg_piece_val', {'ret': 'res', 'ensures': ['res == eg_val(kind)']}, props=P),
          g.fn('evaluation', 'game_phase_val', {'ret': 'res', 'ensures': ['res == phase_val(kind)']}, props=P),
          g.fn('evaluation', 'get_evaluation', GE, props=P))
    g.add(LEMMAS)
