"""Layer 7 -- generate_moves: the top-level statements of C01 / C13 / C02 / C05, composed from the callee contracts."""
SPEC = r'''
pub open spec fn castle_shaped(b: &BoardState, m: Mv) -> bool {
    (at(b.board, m.0.0 as int, m.0.1 as int) matches Square::Full(q) && q.kind == King) && abs(m.1.1 - m.0.1) == 2
}
// a castling move is a king's two-file move; no other legal move is
pub proof fn lemma_castle_shape(b: &BoardState, m: Mv, mode: MoveGenerationMode)
    requires rights_ok(b), wf(b.board)
    ensures legal_castle(b, m) ==> castle_shaped(b, m), legal_from(b, m, mode) ==> !castle_shaped(b, m)
{
    reveal(pseudo_target);
    if legal_castle(b, m) {
        let t = choose|t: CastlingType| right_color(t) == b.to_move && #[trigger] may_castle(b, t) && m == castle_mv(t);
        assert(right(b, t));
    }
}
// from-squares already visited by the double loop
pub open spec fn visited(p: Point, i: int, j: int) -> bool { p.0 < i || (p.0 == i && p.1 < j) }
// C02 at the top level: each returned board is the position after the move its descriptor names
pub open spec fn succ_correct(b: &BoardState, s: &BoardState) -> bool {
    (s.last_move is Some && gen_sound(b, s, s.last_move.unwrap().0)) || castle_sound(b, s)
}
'''
SND = '@C01,C02,C13| '
KEY = '@C05| '
CMP = '@C01,C13| '
INV = lambda i, j: [
    'legal_position(board)', '2 <= i <= 10' if j == '2' else '2 <= i < 10',
    '@C01| move_gen_mode == MoveGenerationMode::AllMoves', '@C13| move_gen_mode == MoveGenerationMode::CapturesOnly',
    KEY + 'key_ok(board, zobrist_hasher)',
    KEY + 'forall|k: int| 0 <= k < new_moves@.len() ==> key_ok(#[trigger] &new_moves@[k], zobrist_hasher)',
    SND + 'forall|k: int| 0 <= k < new_moves@.len() ==> succ_correct(board, #[trigger] &new_moves@[k])',
    SND + 'forall|k: int| 0 <= k < new_moves@.len() ==> legal_position(#[trigger] &new_moves@[k]) && is_successor(board, &new_moves@[k])',
    CMP + 'forall|k: int| 0 <= k < new_moves@.len() ==> { let s = #[trigger] new_moves@[k]; s.last_move is Some && own_at(board, move_of(&s).0) && visited(move_of(&s).0, %s, %s) && legal_from(board, move_of(&s), move_gen_mode) }' % (i, j),
    CMP + 'forall|m: Mv| own_at(board, m.0) && visited(m.0, %s, %s) && #[trigger] legal_from(board, m, move_gen_mode) ==> has_move(new_moves@, 0, m)' % (i, j),
    CMP + 'distinct_moves(new_moves@, 0)',
]
GM = {
    'ret': 'res',
    # C13 is the statement about capture-only generation; C01 about full generation (the mode is symbolic in every callee)
    'requires': ['legal_position(board)', KEY + 'key_ok(board, zobrist_hasher)', '@C13| move_gen_mode == MoveGenerationMode::CapturesOnly', '@C01| move_gen_mode == MoveGenerationMode::AllMoves'],
    'ensures': [
        # C01 / C13, from the statement: no illegal move, no legal move missing, no move twice
        CMP + 'forall|k: int| 0 <= k < res@.len() ==> (#[trigger] res@[k]).last_move is Some && legal_move(board, move_of(&res@[k]), move_gen_mode)',
        CMP + 'forall|m: Mv| #[trigger] legal_move(board, m, move_gen_mode) ==> has_move(res@, 0, m)',
        CMP + 'distinct_moves(res@, 0)',
        # C02: every successor is the position after its move
        SND + 'forall|k: int| 0 <= k < res@.len() ==> succ_correct(board, #[trigger] &res@[k])',
        # ... and is again a legal position: the precondition of generation is re-established (chains of any length)
        # (lemma_chain_closure turns this into the statement for chains of any length)
        SND + 'forall|k: int| 0 <= k < res@.len() ==> legal_position(#[trigger] &res@[k]) && is_successor(board, &res@[k])',
        # C05: every successor's incremental key equals its from-scratch key
        KEY + 'forall|k: int| 0 <= k < res@.len() ==> key_ok(#[trigger] &res@[k], zobrist_hasher)',
    ],
    'loops': {
        0: {'iter': 'iti', 'invariant': INV('i as int', '2')},
        1: {'iter': 'itj', 'invariant': INV('i as int', 'j as int') + ['2 <= j <= 10'],
            'body_start': 'let ghost before = new_moves@;',
            'body_end': [CMP + '''proof {
                let here = Point(i, j);
                assert(prefix_kept(before, new_moves@));
                assert forall|k: int| 0 <= k < new_moves@.len() implies { let s = #[trigger] new_moves@[k]; s.last_move is Some && own_at(board, move_of(&s).0) && visited(move_of(&s).0, i as int, j as int + 1) && legal_from(board, move_of(&s), move_gen_mode) } by {
                    if k < before.len() { assert(new_moves@[k] == before[k]); }
                }
                // completeness for the enlarged visited set
                assert forall|m: Mv| own_at(board, m.0) && visited(m.0, i as int, j as int + 1) && #[trigger] legal_from(board, m, move_gen_mode) implies has_move(new_moves@, 0, m) by {
                    if visited(m.0, i as int, j as int) {
                        assert(has_move(before, 0, m));
                        let k = choose|k: int| 0 <= k < before.len() && (#[trigger] before[k]).last_move is Some && move_of(&before[k]) == m;
                        assert(new_moves@[k] == before[k]);
                    } else {
                        assert(m.0 == here);
                        assert(has_move(new_moves@, before.len() as int, m));
                        let k = choose|k: int| before.len() <= k < new_moves@.len() && (#[trigger] new_moves@[k]).last_move is Some && move_of(&new_moves@[k]) == m;
                        assert(new_moves@[k].last_move is Some);
                    }
                }
                // distinctness: old elements start on visited squares, new ones on (i,j)
                assert(distinct_moves(new_moves@, 0)) by {
                    assert forall|a: int, b: int| 0 <= a < b < new_moves@.len() implies move_of(&new_moves@[a]) != move_of(&new_moves@[b]) by {
                        if b < before.len() { assert(new_moves@[a] == before[a] && new_moves@[b] == before[b]); }
                        else if a < before.len() { assert(new_moves@[a] == before[a]); assert(visited(move_of(&before[a]).0, i as int, j as int)); assert(move_of(&new_moves@[b]).0 == here); }
                    }
                }
            }''', SND + '''proof {
                assert forall|k: int| 0 <= k < new_moves@.len() implies succ_correct(board, #[trigger] &new_moves@[k]) by {
                    if k < before.len() { assert(new_moves@[k] == before[k]); }
                }
                assert forall|k: int| 0 <= k < new_moves@.len() implies legal_position(#[trigger] &new_moves@[k]) && is_successor(board, &new_moves@[k]) by {
                    if k < before.len() { assert(new_moves@[k] == before[k]); }
                }
            }''', KEY + '''proof {
                assert forall|k: int| 0 <= k < new_moves@.len() implies key_ok(#[trigger] &new_moves@[k], zobrist_hasher) by {
                    if k < before.len() { assert(new_moves@[k] == before[k]); }
                }
            }''']},
    },
    'before_text': [('if move_gen_mode == MoveGenerationMode::AllMoves {', 0, 'let ghost before_c = new_moves@;')],
    'at_end': [CMP + '''proof {
        assert(prefix_kept(before_c, new_moves@));
        let v = new_moves@; let n0 = before_c.len() as int;
        // the castling successors are legal castling moves, and all of them
        assert forall|k: int| 0 <= k < v.len() implies (#[trigger] v[k]).last_move is Some && legal_move(board, move_of(&v[k]), move_gen_mode) by {
            if k < n0 { assert(v[k] == before_c[k]); }
            else {
                assert(castle_sound(board, &v[k]));
                let t = choose|t: CastlingType| right_color(t) == board.to_move && may_castle(board, t) && #[trigger] castle_succ_ok(board, &v[k], t);
                assert(move_of(&v[k]) == castle_mv(t));
                assert(legal_castle(board, move_of(&v[k])));
            }
        }
        assert forall|m: Mv| #[trigger] legal_move(board, m, move_gen_mode) implies has_move(v, 0, m) by {
            if own_at(board, m.0) && legal_from(board, m, move_gen_mode) {
                assert(visited(m.0, 10, 2));
                assert(has_move(before_c, 0, m));
                let k = choose|k: int| 0 <= k < before_c.len() && (#[trigger] before_c[k]).last_move is Some && move_of(&before_c[k]) == m;
                assert(v[k] == before_c[k]);
            } else {
                let t = choose|t: CastlingType| right_color(t) == board.to_move && #[trigger] may_castle(board, t) && m == castle_mv(t);
                let k = choose|k: int| n0 <= k < v.len() && castle_of(#[trigger] &v[k], t);
                assert(v[k].last_move is Some && move_of(&v[k]) == m);
            }
        }
        assert(distinct_moves(v, 0)) by {
            assert forall|a: int, b: int| 0 <= a < b < v.len() implies move_of(&v[a]) != move_of(&v[b]) by {
                if b < n0 { assert(v[a] == before_c[a] && v[b] == before_c[b]); }
                else if a < n0 {
                    assert(v[a] == before_c[a]);
                    lemma_castle_shape(board, move_of(&v[a]), move_gen_mode);
                    lemma_castle_shape(board, move_of(&v[b]), move_gen_mode);
                }
            }
        }
    }''', SND + '''proof {
        let v = new_moves@; let n0 = before_c.len() as int;
        assert forall|k: int| 0 <= k < v.len() implies succ_correct(board, #[trigger] &v[k]) by {
            if k < n0 { assert(v[k] == before_c[k]); }
        }
        assert forall|k: int| 0 <= k < v.len() implies legal_position(#[trigger] &v[k]) && is_successor(board, &v[k]) by {
            if k < n0 { assert(v[k] == before_c[k]); }
        }
    }''', KEY + '''proof {
        let v = new_moves@; let n0 = before_c.len() as int;
        assert forall|k: int| 0 <= k < v.len() implies key_ok(#[trigger] &v[k], zobrist_hasher) by {
            if k < n0 { assert(v[k] == before_c[k]); }
        }
    }'''],
    'at_end_before_tail': True,
    'expect': {'loops': ['for', 'for']},
}
P = ('C01', 'C02', 'C05', 'C13')

def build(g):
    g.add(SPEC)
    g.add(g.fn('move_generation', 'generate_moves', GM, props=P, own=()))
