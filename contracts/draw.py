"""C10 -- repetition table operations.

Units: DrawTable::{new, clear, add_board_to_draw_table, is_threefold_repetition} over std HashMap<u64,u8>
(vstd's hash-map model).  count(m,k) = m[k] if k in dom else 0.
Dropped: remove_board_from_draw_table (`Some(&val)` reference pattern is outside the Verus subset; it only
matters for the search clause, which is not decided here).
"""
SPEC = r'''
pub open spec fn count(m: Map<u64, u8>, k: u64) -> int { if m.dom().contains(k) { m[k] as int } else { 0 } }
'''
P = ('C10',)
HINT = 'broadcast use vstd::std_specs::hash::group_hash_axioms;'

def build(g):
    g.add('pub type ZobristKey = u64;')
    g.add(g.typ('draw_table', 'struct', 'DrawTable'))
    g.add(SPEC)
    I = dict(impl='DrawTable', props=P)
    g.add('impl DrawTable {',
          g.fn('draw_table', 'new', {'ret': 'res', 'ensures': ['forall|k: u64| count(res.table@, k) == 0', 'res.table@ == Map::<u64, u8>::empty()']}, qual='DrawTable::new', **I),
          g.fn('draw_table', 'clear', {'ensures': ['final(self).table@ == Map::<u64, u8>::empty()', 'forall|k: u64| count(final(self).table@, k) == 0']}, qual='DrawTable::clear', **I),
          g.fn('draw_table', 'add_board_to_draw_table', {
              'requires': ['count(old(self).table@, board.zobrist_key) < 255'],
              # exact counts, with frame: every other key keeps its count
              'ensures': ['forall|k: u64| count(final(self).table@, k) == count(old(self).table@, k) + (if k == board.zobrist_key { 1int } else { 0int })'],
              'body_start': HINT}, qual='DrawTable::add_board_to_draw_table', **I),
          g.fn('draw_table', 'is_threefold_repetition', {
              'ret': 'res',
              # statement: "a position that has already occurred at least twice" is a draw
              'ensures': ['res == (count(old(self).table@, board.zobrist_key) >= 2)', 'final(self).table@ == old(self).table@'],
              'body_start': HINT}, qual='DrawTable::is_threefold_repetition', **I),
          '}')
