"""C10 -- repetition table operations.

Units: DrawTable::{new, clear, add_board_to_draw_table, is_threefold_repetition} over std HashMap<u64,u8>
(vstd's hash-map model).  count(m,k) = m[k] if k in dom else 0.
remove_board_from_draw_table: the `Some(&val)` reference pattern is outside the Verus subset, so its `if let` header gets the
exact-text rewrite R5 (`Some(&val)` -> `Some(__r)` + `let val = *__r;`, u8 is Copy: same meaning); its contract is the exact
inverse of add on a key that is present with a positive count, and lemma_add_then_remove states that add followed by remove
restores every count (what the search relies on when it walks a line and backs out).
"""
R5 = ('R5', "        if let Some(&val) = self.table.get(&board.zobrist_key) {\n",
      "        if let Some(__r) = self.table.get(&board.zobrist_key) {\n            let val = *__r;\n")
SPEC = r'''
pub open spec fn count(m: Map<u64, u8>, k: u64) -> int { if m.dom().contains(k) { m[k] as int } else { 0 } }
'''
LEMMAS = r'''
// add followed by remove (the search's walk-and-back-out) restores every count
pub proof fn lemma_add_then_remove(m0: Map<u64, u8>, m1: Map<u64, u8>, m2: Map<u64, u8>, key: u64)
    requires
        count(m0, key) < 255,
        forall|k: u64| count(m1, k) == count(m0, k) + (if k == key { 1int } else { 0int }),
        forall|k: u64| count(m2, k) == count(m1, k) - (if k == key && count(m1, k) >= 1 { 1int } else { 0int }),
    ensures
        forall|k: u64| count(m2, k) == count(m0, k),
{
}
'''
P = ('C10',)
HINT = 'broadcast use vstd::std_specs::hash::group_hash_axioms;'

def build(g):
    g.add('pub type ZobristKey = u64;')
    g.add(g.typ('draw_table', 'struct', 'DrawTable'))
    g.add(SPEC)
    I = dict(impl='DrawTable', props=P)
    g.add('impl DrawTable {',
          g.fn('draw_table', 'new', {'ret': 'res', 'ensures': ['forall|k: u64| count(res.table@, k) == 0', 'res.table@ == Map::<u64, u8>::empty()']}, qual='DrawTable::new', **I),
          g.fn('draw_table', 'clear', {'ensures': ['final(self).table@ == Map::<u64, u8>::empty()', 'forall|k: u64| count(final(self).table@, k) == 0']}, qual='DrawTable::clear', **I),
          g.fn('draw_table', 'add_board_to_draw_table', {
              'requires': ['count(old(self).table@, board.zobrist_key) < 255'],
              # exact counts, with frame: every other key keeps its count
              'ensures': ['forall|k: u64| count(final(self).table@, k) == count(old(self).table@, k) + (if k == board.zobrist_key { 1int } else { 0int })'],
              'body_start': HINT}, qual='DrawTable::add_board_to_draw_table', **I),
          g.fn('draw_table', 'is_threefold_repetition', {
              'ret': 'res',
              # statement: "a position that has already occurred at least twice" is a draw
              'ensures': ['res == (count(old(self).table@, board.zobrist_key) >= 2)', 'final(self).table@ == old(self).table@'],
              'body_start': HINT}, qual='DrawTable::is_threefold_repetition', **I),
          g.fn('draw_table', 'remove_board_from_draw_table', {
              # a present key must have a positive count (u8 subtraction); an absent key is left alone
              'requires': ['old(self).table@.dom().contains(board.zobrist_key) ==> old(self).table@[board.zobrist_key] >= 1'],
              'ensures': ['forall|k: u64| count(final(self).table@, k) == count(old(self).table@, k) - (if k == board.zobrist_key && count(old(self).table@, k) >= 1 { 1int } else { 0int })',
                          'final(self).table@.dom() =~= old(self).table@.dom()'],
              'body_start': HINT}, qual='DrawTable::remove_board_from_draw_table', rewrites=[R5], **I),
          '}')
    g.add(LEMMAS)
