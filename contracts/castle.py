"""Layer 6 -- castling: can_castle_{white,black}_{king,queen}_side, can_castle, generate_castling_moves.

C01: can_castle(b, t) == may_castle(b, t) (FIDE 3.8.2: right present, squares between king and rook empty, king not in
check, transit and destination squares not attacked -- by any enemy piece, the enemy king included);
generate_castling_moves appends exactly the allowed castlings of the side to move.  C02: each appended board is
castle_succ_ok (king two squares, rook hop, both rights gone, no en-passant target, no promotion letter, last_move =
the king's move).  C05: key_ok preserved.
"""
SPEC = r'''
pub open spec fn castle_of(s: &BoardState, t: CastlingType) -> bool {
    s.last_move == Some((Point(home_row(t) as usize, 6), Point(home_row(t) as usize, king_to(t) as usize))) && s.pawn_promotion is None
}
pub open spec fn castle_sound(b: &BoardState, s: &BoardState) -> bool {
    exists|t: CastlingType| right_color(t) == b.to_move && may_castle(b, t) && #[trigger] castle_succ_ok(b, s, t)
}
'''

def cc_ann(T, color):
    return {
        'ret': 'res',
        'requires': ['wf(board.board)', 'kings_ok(board)', 'rights_ok(board)'],
        'ensures': ['res == may_castle(board, CastlingType::%s)' % T],
        'body_start': '''proof {
        reveal(kings_ok);
        let t = CastlingType::%(T)s;
        assert(right(board, t) ==> at(board.board, home_row(t), 6) == Square::Full(Piece { kind: King, color: %(C)s }));
        let ek = king_sq(board, opp(%(C)s));
        assert(at(board.board, ek.0 as int, ek.1 as int) == Square::Full(Piece { kind: King, color: opp(%(C)s) }));
    }''' % {'T': T, 'C': color},
        'expect': {'loops': []},
    }

def push_hint(t):
    return '''@C01,C02| proof {
            let s = &new_board; let t = CastlingType::%s;
            assert(right(board, t));
            assert(at(board.board, home_row(t), 6) == Square::Full(Piece { kind: King, color: right_color(t) }));
            assert(at(board.board, home_row(t), rook_from(t)) == Square::Full(Piece { kind: Rook, color: right_color(t) }));
            assert(castle_succ_ok(board, s, t));
            assert(castle_sound(board, s));
            lemma_castle_closure(board, s, t);
            assert(castle_pos_after(board, s, t));
            assert(is_successor(board, s));
        }''' % t

SND = '@C01,C02| '
KEY = '@C05| '
CMP = '@C01| '
LO = 'old(new_moves)@.len() as int'
GC = {
    'requires': ['legal_position(board)', KEY + 'key_ok(board, zobrist_hasher)'],
    'ensures': [
        'prefix_kept(old(new_moves)@, final(new_moves)@)',
        # sound: every appended board is the result of an allowed castling of the side to move
        SND + 'forall|i: int| old(new_moves)@.len() <= i < final(new_moves)@.len() ==> castle_sound(board, #[trigger] &final(new_moves)@[i])',
        SND + 'forall|i: int| old(new_moves)@.len() <= i < final(new_moves)@.len() ==> legal_position(#[trigger] &final(new_moves)@[i]) && is_successor(board, &final(new_moves)@[i])',
        KEY + 'forall|i: int| old(new_moves)@.len() <= i < final(new_moves)@.len() ==> key_ok(#[trigger] &final(new_moves)@[i], zobrist_hasher)',
        # complete: every allowed castling of the side to move was appended
        CMP + '''forall|t: CastlingType| right_color(t) == board.to_move && #[trigger] may_castle(board, t) ==>
            exists|i: int| old(new_moves)@.len() <= i < final(new_moves)@.len() && castle_of(#[trigger] &final(new_moves)@[i], t)''',
        CMP + 'distinct_moves(final(new_moves)@, old(new_moves)@.len() as int)',
    ],
    'body_start': 'broadcast use axiom_boardstate_clone; proof { reveal(kings_ok); } let ghost v0 = new_moves@;',
    'before_text': [
        ('new_moves.push(new_board);', 0, push_hint('WhiteKingSide')),
        ('new_moves.push(new_board);', 1, push_hint('WhiteQueenSide')),
        ('new_moves.push(new_board);', 2, push_hint('BlackKingSide')),
        ('new_moves.push(new_board);', 3, push_hint('BlackQueenSide')),
        ('if board.to_move == White && can_castle(board, &CastlingType::WhiteQueenSide) {', 0, 'let ghost v1 = new_moves@;'),
        ('if board.to_move == Black && can_castle(board, &CastlingType::BlackKingSide) {', 0, 'let ghost v2 = new_moves@;'),
        ('if board.to_move == Black && can_castle(board, &CastlingType::BlackQueenSide) {', 0, 'let ghost v3 = new_moves@;'),
    ],
    'at_end': [
        '''proof {
        let v = new_moves@; let lo = v0.len() as int;
        assert(v1 == v0 || v1.len() == v0.len() + 1);
        assert(prefix_kept(v0, v)) by {
            assert forall|i: int| 0 <= i < v0.len() implies v[i] == v0[i] by { assert(v1[i] == v0[i]); assert(v2[i] == v1[i]); assert(v3[i] == v2[i]); assert(v[i] == v3[i]); }
        }
    }''',
        SND + '''proof {
        let v = new_moves@; let lo = v0.len() as int;
        assert forall|i: int| lo <= i < v.len() implies castle_sound(board, #[trigger] &v[i]) by {
            if i < v1.len() { assert(v[i] == v1[i]); } else if i < v2.len() { assert(v[i] == v2[i]); } else if i < v3.len() { assert(v[i] == v3[i]); }
        }
        assert forall|i: int| lo <= i < v.len() implies legal_position(#[trigger] &v[i]) && is_successor(board, &v[i]) by {
            if i < v1.len() { assert(v[i] == v1[i]); } else if i < v2.len() { assert(v[i] == v2[i]); } else if i < v3.len() { assert(v[i] == v3[i]); }
        }
    }''',
        KEY + '''proof {
        let v = new_moves@; let lo = v0.len() as int;
        assert forall|i: int| lo <= i < v.len() implies key_ok(#[trigger] &v[i], zobrist_hasher) by {
            if i < v1.len() { assert(v[i] == v1[i]); } else if i < v2.len() { assert(v[i] == v2[i]); } else if i < v3.len() { assert(v[i] == v3[i]); }
        }
    }''',
        CMP + '''proof {
        let v = new_moves@; let lo = v0.len() as int;
        assert forall|t: CastlingType| right_color(t) == board.to_move && #[trigger] may_castle(board, t) implies
            exists|i: int| lo <= i < v.len() && castle_of(#[trigger] &v[i], t) by {
            match t {
                CastlingType::WhiteKingSide => { assert(v1.len() == v0.len() + 1); assert(v[lo] == v1[lo]); assert(castle_of(&v[lo], t)); },
                CastlingType::WhiteQueenSide => { assert(v2.len() == v1.len() + 1); assert(v[v1.len() as int] == v2[v1.len() as int]); assert(castle_of(&v[v1.len() as int], t)); },
                CastlingType::BlackKingSide => { assert(v3.len() == v2.len() + 1); assert(v[v2.len() as int] == v3[v2.len() as int]); assert(castle_of(&v[v2.len() as int], t)); },
                CastlingType::BlackQueenSide => { assert(v.len() == v3.len() + 1); assert(castle_of(&v[v3.len() as int], t)); },
            }
        }
        // at most two boards were appended (one colour), and they castle to different sides
        assert(distinct_moves(v, lo)) by {
            assert forall|i: int, j: int| lo <= i < j < v.len() implies move_of(&v[i]) != move_of(&v[j]) by {
                if board.to_move == White {
                    assert(v2 == v3 && v3 == v);
                    assert(i == lo && j == lo + 1);
                    assert(v1.len() == v0.len() + 1 && v2.len() == v1.len() + 1);
                    assert(v[i] == v1[i]);
                    assert(castle_of(&v1[i], CastlingType::WhiteKingSide)); assert(castle_of(&v[j], CastlingType::WhiteQueenSide));
                } else {
                    assert(v0 == v1 && v1 == v2);
                    assert(i == lo && j == lo + 1);
                    assert(v3.len() == v2.len() + 1 && v.len() == v3.len() + 1);
                    assert(v[i] == v3[i]);
                    assert(castle_of(&v3[i], CastlingType::BlackKingSide)); assert(castle_of(&v[j], CastlingType::BlackQueenSide));
                }
            }
        }
    }'''],
    'expect': {'loops': [], 'contains': ['can_castle(board, &CastlingType::WhiteKingSide)', 'WHITE_KING_SIDE_CASTLE_ALG', 'can_castle(board, &CastlingType::WhiteQueenSide)', 'WHITE_QUEEN_SIDE_CASTLE_ALG',
                                         'can_castle(board, &CastlingType::BlackKingSide)', 'BLACK_KING_SIDE_CASTLE_ALG', 'can_castle(board, &CastlingType::BlackQueenSide)', 'BLACK_QUEEN_SIDE_CASTLE_ALG']},
}
# the push hints also record castle_of for the completeness/distinctness argument
P = ('C01', 'C02', 'C05')

def build(g):
    g.add('\n'.join(g.const('move_generation', n) for n in ['WHITE_KING_SIDE_CASTLE_ALG', 'WHITE_QUEEN_SIDE_CASTLE_ALG', 'BLACK_KING_SIDE_CASTLE_ALG', 'BLACK_QUEEN_SIDE_CASTLE_ALG']))
    g.add(SPEC)
    for fn, T, c in [('can_castle_white_king_side', 'WhiteKingSide', 'White'), ('can_castle_white_queen_side', 'WhiteQueenSide', 'White'),
                     ('can_castle_black_king_side', 'BlackKingSide', 'Black'), ('can_castle_black_queen_side', 'BlackQueenSide', 'Black')]:
        g.add(g.fn('move_generation', fn, cc_ann(T, c), props=('C01',)))
    g.add(g.fn('move_generation', 'can_castle', {'ret': 'res', 'requires': ['wf(board.board)', 'kings_ok(board)', 'rights_ok(board)'],
                                                 'ensures': ['res == may_castle(board, *castling_type)'], 'expect': {'loops': []}}, props=P, own=('C01',)))
    g.add(g.fn('move_generation', 'generate_castling_moves', GC, props=P, own=()))
